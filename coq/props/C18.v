(* C18 — the timezone reader returns the UTC offset the TZif data defines per instant.
   Specification: TzSpec.spec_lookup on the file's content (transitions, local time types, footer rule): the type of
   the latest transition at or before t; after the last transition the footer rule, with rule dates Jn / n / Mm.w.d
   defined from the calendar (29 February never counted by Jn; "w-th / last weekday d of month m"), the daylight period
   starting in standard wall time and ending in daylight wall time, in the UTC year of t.
   PROVED here, for every parsed structure tz with sorted transitions that satisfies the reader's own validation (tz_wf,
   established for every accepted file by C19_parse_wf), every timestamp inside the DateTime range and every UTC year
   strictly inside the range (the first and last year are clamped by the code):
   to_local_time_type tz t is exactly the specification's offset (C18_lookup_partial), together with its ingredients: the
   table scan, the three kinds of rule dates, the local timestamp of a switch-over.
   Byte level (TzCodec.v): C18_decode_partial - the reader applied to the RFC 8536 layout of a version 2 / 3 file (an empty
   version-1 block, the second header with its counts, 64-bit big-endian transition times, one-byte type indices, six-byte
   local time type records, designation characters, then the footer) yields exactly the transitions and types that were
   laid out, with the footer handed to the POSIX TZ string parser; i.e. header and block arithmetic and the big-endian
   integer decoding are proved.
   Footer (TzFooter.v): C18_footer - the POSIX TZ string parser applied to the canonical printing of a rule (STD, offset as
   [-]h:mm:ss, DST, offset, and the two switch-over rules Jn | n | Mm.w.d each followed by /[-]h:mm:ss, between two line
   feeds) returns exactly that rule, for every rule within the grammar's ranges (offsets up to 24 h, rule times up to 24 h,
   or 167 h in a version-3 file); C18_file composes it with the layout theorem: the reader applied to the whole encoded
   file returns the transitions, types and rule that were encoded.
   Grammar at large (TzGrammar.v): C18_footer_grammar - the same for EVERY spelling the footer grammar allows for a rule:
   designations alphabetic or quoted <...>, offsets and times with an optional + or -, hours padded to any width, minutes
   and seconds omitted when zero, the DST offset omitted when it is one hour ahead of standard time, "/time" omitted when
   it is 02:00:00 (the way real zone files are written: C18_grammar_nonvacuous spells CET-1CEST,M3.5.0,M10.5.0/3 and
   <+0330>-3:30<+0430>,J79/24,J263/24); C18_file_grammar composes it with the layout theorem.
   General layout (TzLayout.v, TzWhole.v): C18_file_v1 - a version-1 file (32-bit block, no footer, anything after it
   ignored); C18_file_whole / C18_file_whole_norule - a version 2/3 file with ANY version-1 block in front and ANY
   leap-second, standard/wall and UT/local sections (skipped by their declared sizes), the footer in any admissible
   spelling, or empty: the reader returns exactly the transitions, types and rule that were laid out.
   So for every file laid out as RFC 8536 prescribes the decode is proved; what the theorems do not say is that real
   files ARE such layouts (that is what the run on real zone files against CPython's zoneinfo checks).
   The lookup and decode theorems keep the name *_partial for that reason. *)
From Astro Require Import Base Text CalSpec DateModel TimeModel ApiModel InstantSpec TzModel TzSpec DateProofs TzProofs TzCodec TzFooter TzGrammar TzLayout TzWhole.

Theorem C18_lookup_partial : forall tz t, tz_wf tz -> sorted_trans (tz_trans tz) -> ts_in_range t ->
  MIN_Y + 1 <= utc_year year_of t <= MAX_Y - 1 ->
  exists u, spec_lookup year_of (spec_file tz) t = Some u /\ to_local_time_type tz t = TzOk u.
Proof. exact lookup_is_spec. Qed.

Theorem C18_decode_partial : forall v trans types chars footer, v <> V1 ->
  Forall (fun tr => in_i64 (fst tr)) trans -> Forall in_i32 types ->
  u32ok (Z.of_nat (length trans)) -> u32ok (Z.of_nat (length types)) -> u32ok (Z.of_nat (length chars)) ->
  from_tzif (enc_file v trans types chars footer) =
  (let! rule := from_tz_string footer (match v with V3 => true | _ => false end) in
   if existsb (fun tr => Z.of_nat (length types) <=? snd tr) trans
      || ((match types with [] => true | _ => false end) && (match rule with None => true | _ => false end))
   then TzErr else TzOk (mkTz trans types rule)).
Proof. exact from_tzif_encoded. Qed.

Theorem C18_footer : forall (ext : bool) r, footer_ok ext r -> from_tz_string (footer_of r) ext = TzOk (Some r).
Proof. exact from_tz_string_footer. Qed.
Theorem C18_file : forall v trans types chars r, v <> V1 ->
  Forall (fun tr => in_i64 (fst tr)) trans -> Forall in_i32 types ->
  u32ok (Z.of_nat (length trans)) -> u32ok (Z.of_nat (length types)) -> u32ok (Z.of_nat (length chars)) ->
  footer_ok (match v with V3 => true | _ => false end) r ->
  existsb (fun tr => Z.of_nat (length types) <=? snd tr) trans = false ->
  from_tzif (enc_file v trans types chars (footer_of r)) = TzOk (mkTz trans types (Some r)).
Proof. exact from_tzif_file. Qed.
Theorem C18_footer_grammar : forall (ext : bool) sp r, footer_ok ext r -> spelling_ok sp r ->
  from_tz_string ([10] ++ tz_print sp r ++ [10]) ext = TzOk (Some r).
Proof. exact from_tz_string_grammar. Qed.
Theorem C18_file_grammar : forall v trans types chars sp r, v <> V1 ->
  Forall (fun tr => in_i64 (fst tr)) trans -> Forall in_i32 types ->
  u32ok (Z.of_nat (length trans)) -> u32ok (Z.of_nat (length types)) -> u32ok (Z.of_nat (length chars)) ->
  footer_ok (match v with V3 => true | _ => false end) r -> spelling_ok sp r ->
  existsb (fun tr => Z.of_nat (length types) <=? snd tr) trans = false ->
  from_tzif (enc_file v trans types chars ([10] ++ tz_print sp r ++ [10])) = TzOk (mkTz trans types (Some r)).
Proof. exact from_tzif_file_grammar. Qed.
Theorem C18_file_v1 : forall c trailing, content_ok V1 c -> Forall (fun tr => in_i32 (fst tr)) (c_trans c) -> Forall in_i32 (c_types c) ->
  from_tzif (enc_file_v1 c trailing) =
  (if existsb (fun tr => Z.of_nat (length (c_types c)) <=? snd tr) (c_trans c) || (match c_types c with [] => true | _ => false end)
   then TzErr else TzOk (mkTz (c_trans c) (c_types c) None)).
Proof. exact from_tzif_v1. Qed.
Theorem C18_file_whole : forall v c1 c sp r, v <> V1 -> content_ok V1 c1 -> content_ok v c ->
  Forall (fun tr => in_i64 (fst tr)) (c_trans c) -> Forall in_i32 (c_types c) ->
  footer_ok (match v with V3 => true | _ => false end) r -> spelling_ok sp r ->
  existsb (fun tr => Z.of_nat (length (c_types c)) <=? snd tr) (c_trans c) = false ->
  from_tzif (enc_file_gen v c1 c ([10] ++ tz_print sp r ++ [10])) = TzOk (mkTz (c_trans c) (c_types c) (Some r)).
Proof. exact from_tzif_whole. Qed.
Theorem C18_file_whole_norule : forall v c1 c, v <> V1 -> content_ok V1 c1 -> content_ok v c ->
  Forall (fun tr => in_i64 (fst tr)) (c_trans c) -> Forall in_i32 (c_types c) -> c_types c <> [] ->
  existsb (fun tr => Z.of_nat (length (c_types c)) <=? snd tr) (c_trans c) = false ->
  from_tzif (enc_file_gen v c1 c [10; 10]) = TzOk (mkTz (c_trans c) (c_types c) None).
Proof. exact from_tzif_whole_norule. Qed.
Example C18_layout_nonvacuous :
  let c := mkContent [(-1000000000, 1); (1000000000, 0)] [3600; 7200] [67; 69; 84; 0] (mkSec 1 [0;0;0;0;0;0;0;1] [1; 0] [0; 1]) in
  and (content_ok V1 c) (from_tzif (enc_file_v1 c [1; 2; 3]) = TzOk (mkTz [(-1000000000, 1); (1000000000, 0)] [3600; 7200] None)).
Proof. exact layout_v1_example. Qed.

Example C18_grammar_nonvacuous :
  let r := RAlt (mkAlt 3600 (MonthWeekDay 3 5 0) 7200 7200 (MonthWeekDay 10 5 0) 10800) in
  let sp := mkSp (DAlpha [67;69;84]) (mkHms SgMinus 1 0) (DAlpha [67;69;83;84]) None None (Some (mkHms SgNone 1 0)) in
  and (footer_ok false r) (and (spelling_ok sp r)
  (tz_print sp r = [67;69;84;45;49;67;69;83;84;44;77;51;46;53;46;48;44;77;49;48;46;53;46;48;47;51])).
Proof. exact grammar_europe. Qed.
Example C18_grammar_nonvacuous_quoted :
  let r := RAlt (mkAlt 12600 (JulianNoLeap 79) 86400 16200 (JulianNoLeap 263) 86400) in
  let q := fun l => DQuoted l in
  let sp := mkSp (q [43;48;51;51;48]) (mkHms SgMinus 2 0) (q [43;48;52;51;48]) None (Some (mkHms SgNone 1 0)) (Some (mkHms SgNone 1 0)) in
  and (footer_ok false r) (and (spelling_ok sp r)
  (tz_print sp r = [60;43;48;51;51;48;62;45;51;58;51;48;60;43;48;52;51;48;62;44;74;55;57;47;50;52;44;74;50;54;51;47;50;52])).
Proof. exact grammar_tehran. Qed.

Example C18_footer_nonvacuous :
  let r := RAlt (mkAlt 3600 (MonthWeekDay 3 5 0) 7200 7200 (MonthWeekDay 10 5 0) 10800) in
  and (footer_ok false r)
  (footer_of r = [10; 83;84;68; 45;49;58;48;48;58;48;48; 68;83;84; 45;50;58;48;48;58;48;48; 44; 77;51;46;53;46;48; 47; 50;58;48;48;58;48;48;
                 44; 77;49;48;46;53;46;48; 47; 51;58;48;48;58;48;48; 10]).
Proof. exact footer_europe. Qed.

Theorem C18_scan : forall l t, sorted_trans l -> scan_rev (rev l) t = latest_type l t 0.
Proof. exact scan_is_latest. Qed.
Theorem C18_rule_date_J : forall Y n, MIN_Y < Y < MAX_Y -> Y <> 0 -> 1 <= n <= 365 ->
  year_doy_to_days Y n true = Ok (rule_date Y (SJ n)).
Proof. exact rule_date_J. Qed.
Theorem C18_rule_date_N : forall Y n, MIN_Y < Y < MAX_Y -> Y <> 0 -> 0 <= n <= 365 ->
  (let! j := unwrap_days (year_doy_to_days Y 1 false) in TzOk (j + n)) = TzOk (rule_date Y (SN n)).
Proof. exact rule_date_N. Qed.
Theorem C18_rule_date_M : forall Y m w wd, MIN_Y < Y < MAX_Y -> Y <> 0 -> 1 <= m <= 12 -> 1 <= w <= 5 -> 0 <= wd <= 6 ->
  (let! wds := weekdays_in_month Y m wd in
   let! dom := (if w =? 5 then match rev wds with x :: _ => TzOk x | [] => TzPanic end
                else match nth_error wds (Z.to_nat (w - 1)) with Some x => TzOk x | None => TzPanic end) in
   match year_month_to_doy Y m with
   | Ok (start, _) => unwrap_days (year_doy_to_days Y (start + dom) false)
   | _ => TzPanic end) = TzOk (rule_date Y (SM m w wd)).
Proof. exact rule_date_M. Qed.
(* the Unix-epoch-based local timestamp of a switch-over in the rule year *)
Theorem C18_rule_timestamp : forall rdy time t Y, rule_day_ok rdy -> time_ok time -> rule_year t = TzOk Y -> MIN_Y < Y < MAX_Y -> Y <> 0 ->
  rule_to_local_timestamp rdy time t = TzOk ((rule_date Y (spec_day rdy) - UNIX_EPOCH_DAY) * 86400 + time).
Proof. exact rule_ts_spec. Qed.
Theorem C18_rule_year : forall t, ts_in_range t ->
  rule_year t = TzOk (Z.max (MIN_Y + 1) (Z.min (MAX_Y - 1) (utc_year year_of t))).
Proof. exact rule_year_is. Qed.

Example C18_examples :
  rule_date 2024 (SJ 60) = rd (2024, 3, 1) /\ rule_date 2023 (SJ 60) = rd (2023, 3, 1) /\
  rule_date 2024 (SM 3 5 0) = rd (2024, 3, 31) /\ rule_date 2024 (SM 10 5 0) = rd (2024, 10, 27) /\
  rule_date 2024 (SM 11 1 0) = rd (2024, 11, 3).
Proof. repeat split; vm_compute; reflexivity. Qed.
(* Europe/Berlin-like structure: CET-1CEST,M3.5.0,M10.5.0/3 after a last transition in 1996; 2024-07-01T00:00Z is daylight time, 2024-12-01 standard *)
Example C18_lookup_example :
  let tz := mkTz [(828234000, 1); (846378000, 0)] [3600; 7200]
                 (Some (RAlt (mkAlt 3600 (MonthWeekDay 3 5 0) 7200 7200 (MonthWeekDay 10 5 0) 10800))) in
  to_local_time_type tz 1719792000 = TzOk 7200 /\ to_local_time_type tz 1733011200 = TzOk 3600 /\
  spec_lookup year_of (spec_file tz) 1719792000 = Some 7200 /\ to_local_time_type tz 830000000 = TzOk 7200.
Proof. cbv zeta. repeat split; vm_compute; reflexivity. Qed.

Print Assumptions C18_lookup_partial.
Print Assumptions C18_decode_partial.
Print Assumptions C18_footer.
Print Assumptions C18_file.
Print Assumptions C18_footer_grammar.
Print Assumptions C18_file_grammar.
Print Assumptions C18_file_v1.
Print Assumptions C18_file_whole.
Print Assumptions C18_file_whole_norule.
Print Assumptions C18_scan.
Print Assumptions C18_rule_date_J.
Print Assumptions C18_rule_date_N.
Print Assumptions C18_rule_date_M.
Print Assumptions C18_rule_timestamp.
Print Assumptions C18_rule_year.
