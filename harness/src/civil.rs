//! Independent calendar helpers used only to *place* generated inputs (boundary dates);
//! never used as an oracle.
pub fn astro(y: i64) -> i64 {
    if y < 0 { y + 1 } else { y }
}
pub fn unastro(a: i64) -> i64 {
    if a <= 0 { a - 1 } else { a }
}
pub fn is_leap(y: i64) -> bool {
    let a = astro(y);
    a.rem_euclid(4) == 0 && (a.rem_euclid(100) != 0 || a.rem_euclid(400) == 0)
}
pub fn mlen(y: i64, m: i64) -> i64 {
    match m {
        2 => if is_leap(y) { 29 } else { 28 },
        4 | 6 | 9 | 11 => 30,
        _ => 31,
    }
}
/// day number (0 = 0001-01-01) of a date; y != 0
pub fn days_from_ymd(y: i64, m: i64, d: i64) -> i64 {
    let a = astro(y) - 1;
    let mut n = 365 * a + a.div_euclid(4) - a.div_euclid(100) + a.div_euclid(400);
    for k in 1..m {
        n += mlen(y, k);
    }
    n + d - 1
}
pub const DAY_MIN: i64 = i32::MIN as i64;
pub const DAY_MAX: i64 = i32::MAX as i64;
pub const YEAR_MIN: i64 = -5_879_611;
pub const YEAR_MAX: i64 = 5_879_611;

/// Boundary-dense set of day numbers shared by the date properties.
pub fn boundary_days() -> Vec<i64> {
    let mut v = vec![];
    for k in 0..=3 {
        v.push(DAY_MIN + k);
        v.push(DAY_MAX - k);
    }
    for k in -3..=3 {
        v.push(k);
        v.push(719_162 + k);
        v.push(730_179 + k); // 2000-03-01, the epoch of the musl algorithm
    }
    let mut years: Vec<i64> = vec![];
    years.extend(-402..=402);
    years.extend(1599..=2401);
    years.extend((YEAR_MIN + 1)..=(YEAR_MIN + 6));
    years.extend((YEAR_MAX - 6)..=(YEAR_MAX - 1));
    for y in years {
        if y == 0 {
            continue;
        }
        for (m, d) in [(1, 1), (2, 28), (3, 1), (12, 31)] {
            v.push(days_from_ymd(y, m, d));
        }
        if is_leap(y) {
            v.push(days_from_ymd(y, 2, 29));
        }
    }
    v.retain(|d| *d >= DAY_MIN && *d <= DAY_MAX);
    v.sort();
    v.dedup();
    v
}
