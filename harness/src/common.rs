//! Shared plumbing: inputs, observations, PRNG, Coq term printing.
use std::fmt::Write as _;

#[derive(Clone, Debug, PartialEq, Eq, Hash)]
pub struct Input {
    pub op: String,
    pub ints: Vec<i128>,
    pub strs: Vec<String>,
}

impl Input {
    pub fn new(op: &str, ints: Vec<i128>) -> Self {
        Input { op: op.to_string(), ints, strs: vec![] }
    }
    pub fn with_strs(op: &str, ints: Vec<i128>, strs: Vec<String>) -> Self {
        Input { op: op.to_string(), ints, strs }
    }
    pub fn encode(&self) -> String {
        let ints: Vec<String> = self.ints.iter().map(|i| i.to_string()).collect();
        let strs: Vec<String> = self
            .strs
            .iter()
            .map(|s| {
                let mut h = String::from("x");
                for b in s.as_bytes() {
                    write!(h, "{:02x}", b).unwrap();
                }
                h
            })
            .collect();
        format!("{};{};{}", self.op, ints.join(","), strs.join(","))
    }
    pub fn decode(line: &str) -> Option<Self> {
        let mut it = line.trim().splitn(3, ';');
        let op = it.next()?.to_string();
        let ints_s = it.next()?;
        let strs_s = it.next().unwrap_or("");
        let ints = if ints_s.is_empty() {
            vec![]
        } else {
            ints_s.split(',').map(|x| x.parse::<i128>().ok()).collect::<Option<Vec<_>>>()?
        };
        let mut strs = vec![];
        if !strs_s.is_empty() {
            for h in strs_s.split(',') {
                let h = h.strip_prefix('x')?;
                let mut bytes = vec![];
                let hb = h.as_bytes();
                let mut i = 0;
                while i + 1 < hb.len() {
                    bytes.push(u8::from_str_radix(std::str::from_utf8(&hb[i..i + 2]).ok()?, 16).ok()?);
                    i += 2;
                }
                strs.push(String::from_utf8(bytes).ok()?);
            }
        }
        Some(Input { op, ints, strs })
    }
}

#[derive(Clone, Debug, PartialEq, Eq)]
pub enum Obs {
    Ok(Vec<i128>, Vec<String>),
    /// kind 1 = OutOfRange [name, min, max, value, custom?]; 2 = InvalidFormat; 3 = other error type
    Err(i128, Vec<i128>),
    Panic,
}

fn z(i: i128) -> String {
    format!("({})", i)
}
fn zlist(v: &[i128]) -> String {
    let items: Vec<String> = v.iter().map(|i| z(*i)).collect();
    format!("[{}]", items.join(";"))
}
fn slist(v: &[String]) -> String {
    let items: Vec<String> = v
        .iter()
        .map(|s| {
            let cs: Vec<String> = s.chars().map(|c| format!("{}", c as u32)).collect();
            format!("[{}]", cs.join(";"))
        })
        .collect();
    format!("[{}]", items.join(";"))
}

pub fn coq_term(inp: &Input, obs: &Obs) -> String {
    let o = match obs {
        Obs::Ok(zs, ss) => format!("(OOk {} {})", zlist(zs), slist(ss)),
        Obs::Err(k, zs) => format!("(OErr {} {})", z(*k), zlist(zs)),
        Obs::Panic => "OPanic".to_string(),
    };
    format!("mk Op_{} {} {} {}", inp.op, zlist(&inp.ints), slist(&inp.strs), o)
}

pub fn obs_class(obs: &Obs) -> &'static str {
    match obs {
        Obs::Ok(..) => "ok",
        Obs::Err(1, _) => "err_out_of_range",
        Obs::Err(2, _) => "err_invalid_format",
        Obs::Err(..) => "err_other",
        Obs::Panic => "panic",
    }
}

/// splitmix64
pub struct Rng(pub u64);
impl Rng {
    pub fn next(&mut self) -> u64 {
        self.0 = self.0.wrapping_add(0x9E3779B97F4A7C15);
        let mut z = self.0;
        z = (z ^ (z >> 30)).wrapping_mul(0xBF58476D1CE4E5B9);
        z = (z ^ (z >> 27)).wrapping_mul(0x94D049BB133111EB);
        z ^ (z >> 31)
    }
    /// uniform in lo..=hi
    pub fn range(&mut self, lo: i128, hi: i128) -> i128 {
        let span = (hi - lo + 1) as u128;
        let r = ((self.next() as u128) << 64 | self.next() as u128) % span;
        lo + r as i128
    }
    pub fn pick<'a, T>(&mut self, v: &'a [T]) -> &'a T {
        &v[(self.next() % v.len() as u64) as usize]
    }
    pub fn chance(&mut self, num: u64, den: u64) -> bool {
        self.next() % den < num
    }
}

/// Parses `name: <int>` out of a derived Debug rendering.
pub fn debug_field(s: &str, name: &str) -> Option<i128> {
    let key = format!("{}: ", name);
    let i = s.find(&key)? + key.len();
    let rest = &s[i..];
    let rest = rest.strip_prefix("Fixed(").unwrap_or(rest);
    let end = rest
        .char_indices()
        .find(|(k, c)| !(c.is_ascii_digit() || (*k == 0 && *c == '-')))
        .map(|(k, _)| k)
        .unwrap_or(rest.len());
    rest[..end].parse().ok()
}

pub fn err_obs(e: &astrolabe::errors::AstrolabeError) -> Obs {
    use astrolabe::errors::AstrolabeError::*;
    match e {
        OutOfRange(o) => {
            let d = format!("{:?}", o);
            let name = {
                let key = "name: \"";
                let i = d.find(key).map(|i| i + key.len()).unwrap_or(0);
                let j = d[i..].find('"').map(|j| i + j).unwrap_or(i);
                d[i..j].to_string()
            };
            let code = match name.as_str() {
                "year" => 1,
                "month" => 2,
                "day" => 3,
                "day of year" => 4,
                "hour" => 5,
                "minute" => 6,
                "second" => 7,
                "seconds" => 8,
                "nanoseconds" => 9,
                "value" => 10,
                "timestamp" => 11,
                "" => 12,
                _ => 99,
            };
            let custom = if d.contains("custom: Some(") { 1 } else { 0 };
            Obs::Err(
                1,
                vec![
                    code,
                    debug_field(&d, "min").unwrap_or(0),
                    debug_field(&d, "max").unwrap_or(0),
                    debug_field(&d, "value").unwrap_or(0),
                    custom,
                ],
            )
        }
        InvalidFormat(_) => Obs::Err(2, vec![]),
    }
}

pub fn guarded<F: FnOnce() -> Obs + std::panic::UnwindSafe>(f: F) -> Obs {
    match std::panic::catch_unwind(f) {
        Ok(o) => o,
        Err(_) => Obs::Panic,
    }
}

/// One generated case: non-trivial flag (for the evidence count), input.
pub struct Gen {
    pub rng: Rng,
    pub out: Vec<(bool, Input)>,
    /// the time of day drawn last (off_pool aligns the offset with it one time in five: local midnight, 23:59:59, noon)
    pub last_nanos: i128,
}
impl Gen {
    pub fn push(&mut self, nontrivial: bool, inp: Input) {
        self.out.push((nontrivial, inp));
    }
}
