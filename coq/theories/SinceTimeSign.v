(* SinceTimeSign.v — C03, last clause, for the Time type: two Times are ordered by their stored times of day, and the sign
   of every *_since difference agrees with that order. *)
From Astro Require Import Base DateModel TimeModel ApiModel InstantSpec TimeProofs SinceSign SinceTime.

Theorem c03_time_order_since a b : Inv_tm a -> Inv_tm b ->
  forall s, In s [time_hours_since a b; time_minutes_since a b; time_seconds_since a b; time_millis_since a b;
                  time_micros_since a b; time_nanos_since a b] ->
  (0 < s -> tm_nanos b < tm_nanos a) /\ (s < 0 -> tm_nanos a < tm_nanos b) /\ (tm_nanos a = tm_nanos b -> s = 0).
Proof.
  intros Ia Ib s Hin.
  assert (G : exists u, 0 < u /\ s = Z.quot (tm_nanos a - tm_nanos b) u).
  { cbn [In] in Hin. destruct Hin as [<- | [<- | [<- | [<- | [<- | [<- | []]]]]]].
    - exists NANOS_PER_HOUR. split; [unfold NANOS_PER_HOUR; lia | apply time_hours_since_is; assumption].
    - exists NANOS_PER_MINUTE. split; [unfold NANOS_PER_MINUTE; lia | apply time_minutes_since_is; assumption].
    - exists NANOS_PER_SEC. split; [unfold NANOS_PER_SEC; lia | apply time_seconds_since_is; assumption].
    - exists 1000000. split; [lia | apply time_millis_since_is; assumption].
    - exists 1000. split; [lia | apply time_micros_since_is; assumption].
    - exists 1. split; [lia|]. rewrite Z.quot_1_r. apply time_nanos_since_is; assumption. }
  destruct G as (u & Hu & ->). destruct (quot_sign (tm_nanos a - tm_nanos b) u Hu) as [P N].
  repeat split.
  - intros H. specialize (P H). lia.
  - intros H. specialize (N H). lia.
  - intros H. rewrite H, Z.sub_diag. apply Z.quot_0_l. lia.
Qed.
