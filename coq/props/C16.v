(* C16 — a cron expression denotes exactly the documented value sets per field.
   CronSpec: cron_spec is a direct recogniser of the documented grammar (five white-space separated fields;
   comma lists of  * | */step | a | a-b ; decimal numbers or month / weekday names in any letter case; weekday 7 =
   Sunday; step 1..255), item_matches / field_matches say which values an item / a field denotes. *)
From Astro Require Import Base Text CronModel CronSpec CronProofs.

(* the parser accepts exactly the expressions of the grammar, and the five value sets it builds contain, over each
   field's range, precisely the values the items denote; everything else is rejected (InvalidFormat) *)
Theorem C16_refine : forall s,
  match cron_spec s with
  | Some (a, b, c, d, e) =>
      exists sc, parse_expression s = Some sc /\
        (forall v, 0 <= v <= 59 -> mem v (s_min sc) = field_matches KMinute a v) /\
        (forall v, 0 <= v <= 23 -> mem v (s_hour sc) = field_matches KHour b v) /\
        (forall v, 1 <= v <= 31 -> mem v (s_dom sc) = field_matches KDom c v) /\
        (forall v, 1 <= v <= 12 -> mem v (s_mon sc) = field_matches KMonth d v) /\
        (forall v, 0 <= v <= 6 -> mem v (s_dow sc) = field_matches KDow e v)
  | None => parse_expression s = None
  end.
Proof. exact cron_refine. Qed.
(* per item: what the parser adds for one item is what the item denotes *)
Theorem C16_item : forall k p, (knumeric k = true -> is_numeric_part p = true) ->
  match parse_item_spec k p with
  | Some it => exists vs, parse_item p (kmin k) (kmax k) (kty k) = Some vs /\
                          forall v, kmin k <= v <= kmax k -> mem v vs = item_matches k it v
  | None => parse_item p (kmin k) (kmax k) (kty k) = None
  end.
Proof. exact item_refine. Qed.

(* the grammar is not vacuous and means what it should: "*/15 0-7 1,15 jan-MAR Mon-fri", "0 0 * * 5-7", and rejections *)
Definition t_ (l : list nat) : text := map Z.of_nat l.
Example C16_examples :
  cron_spec (t_ [42;47;49;53;32;48;45;55;32;49;44;49;53;32;106;97;110;45;77;65;82;32;77;111;110;45;102;114;105]%nat)
    = Some ([IStep 15], [IRange 0 7], [IVal 1; IVal 15], [IRange 1 3], [IRange 1 5]) /\
  (exists sc, parse_expression (t_ [48;32;48;32;42;32;42;32;53;45;55]%nat) = Some sc /\ canon 0 6 (s_dow sc) = [0; 5; 6]) /\
  cron_spec (t_ [42;32;42;32;42;32;42;32;49;45;50;45;51]%nat) = None /\      (* "* * * * 1-2-3" *)
  cron_spec (t_ [42;32;42;32;42;32;42;47;43;53;32;42]%nat) = None /\         (* "* * * */+5 *"  *)
  cron_spec (t_ [42;47;48;32;42;32;42;32;42;32;42]%nat) = None /\            (* "*/0 * * * *"   *)
  cron_spec (t_ [42;32;42;32;42;32;42]%nat) = None.                          (* four fields     *)
Proof. repeat split; try reflexivity. eexists. split; reflexivity. Qed.

Print Assumptions C16_refine.
Print Assumptions C16_item.
