(* PatternSpec.v — the documented format-symbol table as data (C11), patterns as lists of items,
   and the unambiguous-pattern grammar of C12.  Independent of FormatModel's algorithms. *)
From Astro Require Import Base Text.

Inductive pitem :=
| PField (sym : Z) (w : Z)        (* a run of w >= 1 copies of a format symbol *)
| PLit (c : Z) (k : Z)            (* a run of k >= 1 copies of any other character *)
| PQuoted (txt : text)            (* '...' with apostrophes inside written as '' *)
| PApos (k : Z).                  (* k >= 1 escaped apostrophes ('' each) outside quotes *)

Fixpoint repeat_c (c : Z) (k : nat) : text := match k with O => [] | S j => c :: repeat_c c j end.
Definition unparse_item (it : pitem) : text :=
  match it with
  | PField c w | PLit c w => repeat_c c (Z.to_nat w)
  | PQuoted txt => 39 :: flat_map (fun c => if c =? 39 then [39; 39] else [c]) txt ++ [39]
  | PApos k => repeat_c 39 (Z.to_nat (2 * k))
  end.
Definition unparse (its : list pitem) : text := flat_map unparse_item its.

(* what a value shows: local calendar and clock fields *)
Record vfields := mkVF {
  vf_bc : bool;        (* before 0001-01-01 *)
  vf_year : Z; vf_month : Z; vf_day : Z; vf_doy : Z;
  vf_wd : Z;           (* 0 = Sunday *)
  vf_week : Z;         (* ISO week *)
  vf_hour : Z; vf_minute : Z; vf_second : Z;
  vf_subsec : Z;       (* nanoseconds of the second *)
  vf_offset : Z }.     (* seconds east of UTC *)

(* decimal digits, most significant first *)
Fixpoint dec_digits (fuel : nat) (n : Z) (acc : text) : text :=
  match fuel with O => acc | S k => if n <? 10 then (48 + n) :: acc else dec_digits k (n / 10) ((48 + n mod 10) :: acc) end.
Definition dec (n : Z) : text := dec_digits 40 n [].
Definition pad (n : Z) (w : Z) : text := let s := dec n in repeat_c 48 (Z.to_nat w - length s) ++ s.
Definition pad_signed (n : Z) (w : Z) : text := (if n <? 0 then [45] else []) ++ pad (Z.abs n) w.

Definition S_ (l : list Z) : text := l.
Definition T_MONTH_ABBR : list text := [S_[74;97;110]; S_[70;101;98]; S_[77;97;114]; S_[65;112;114]; S_[77;97;121]; S_[74;117;110]; S_[74;117;108]; S_[65;117;103]; S_[83;101;112]; S_[79;99;116]; S_[78;111;118]; S_[68;101;99]].
Definition T_MONTH_WIDE : list text :=
  [S_[74;97;110;117;97;114;121]; S_[70;101;98;114;117;97;114;121]; S_[77;97;114;99;104]; S_[65;112;114;105;108]; S_[77;97;121]; S_[74;117;110;101];
   S_[74;117;108;121]; S_[65;117;103;117;115;116]; S_[83;101;112;116;101;109;98;101;114]; S_[79;99;116;111;98;101;114]; S_[78;111;118;101;109;98;101;114]; S_[68;101;99;101;109;98;101;114]].
Definition T_WDAY_ABBR : list text := [S_[83;117;110]; S_[77;111;110]; S_[84;117;101]; S_[87;101;100]; S_[84;104;117]; S_[70;114;105]; S_[83;97;116]].
Definition T_WDAY_WIDE : list text :=
  [S_[83;117;110;100;97;121]; S_[77;111;110;100;97;121]; S_[84;117;101;115;100;97;121]; S_[87;101;100;110;101;115;100;97;121]; S_[84;104;117;114;115;100;97;121]; S_[70;114;105;100;97;121]; S_[83;97;116;117;114;100;97;121]].
Definition name_of (tbl : list text) (i : Z) : text := nth (Z.to_nat i) tbl [].
Definition first_n (n : nat) (s : text) : text := firstn n s.

Definition ordinal (n : Z) : text :=
  dec n ++ (if (n mod 10 =? 1) && negb (n =? 11) then S_[115;116] else if (n mod 10 =? 2) && negb (n =? 12) then S_[110;100]
            else if (n mod 10 =? 3) && negb (n =? 13) then S_[114;100] else S_[116;104]).

Definition period_text (style : Z) (pm : bool) : text :=
  match style with
  | 4 => if pm then S_[112;46;109;46] else S_[97;46;109;46]
  | 5 => if pm then S_[112] else S_[97]
  | 1 | 2 => if pm then S_[80;77] else S_[65;77]
  | _ => if pm then S_[112;109] else S_[97;109]
  end.
Definition zone_text (w : Z) (off : Z) (with_z : bool) : text :=
  if with_z && (off =? 0) then S_[90] else
  let a := Z.abs off in let hh := pad (a / 3600) 2 in let mm := pad (a / 60 mod 60) 2 in let ss := pad (a mod 60) 2 in
  let sign := if off <? 0 then [45] else [43] in
  match w with
  | 1 => sign ++ hh ++ (if a / 60 mod 60 =? 0 then [] else mm)
  | 2 => sign ++ hh ++ mm
  | 4 => sign ++ hh ++ mm ++ (if a mod 60 =? 0 then [] else ss)
  | 5 => sign ++ hh ++ [58] ++ mm ++ (if a mod 60 =? 0 then [] else 58 :: ss)
  | _ => sign ++ hh ++ [58] ++ mm
  end.

(* the symbol table: sym is the symbol's code point, w the run length *)
Definition render_field (F : vfields) (sym w : Z) : text :=
  let over (mx dflt : Z) := if mx <? w then dflt else w in      (* over-long runs fall back to the default width *)
  match sym with
  | 71 (* G *) => match over 5 4 with 1 | 2 | 3 => if vf_bc F then S_[66;67] else S_[65;68]
                                     | 5 => if vf_bc F then S_[66] else S_[65]
                                     | _ => if vf_bc F then S_[66;101;102;111;114;101;32;67;104;114;105;115;116] else S_[65;110;110;111;32;68;111;109;105;110;105] end
  | 121 (* y *) => if w =? 2 then (if vf_year F <? 0 then [45] else []) ++ pad (Z.abs (vf_year F) mod 100) 2   (* two-digit year: sign, last two digits *)
                   else pad_signed (vf_year F) w
  | 113 (* q *) => let q := (vf_month F - 1) / 3 + 1 in
                   match over 5 1 with 1 => pad q 1 | 2 => pad q 2 | 3 => 81 :: dec q | 4 => ordinal q ++ S_[32;113;117;97;114;116;101;114] | _ => pad q 1 end
  | 77 (* M *) => match over 5 4 with 1 => pad (vf_month F) 1 | 2 => pad (vf_month F) 2 | 3 => name_of T_MONTH_ABBR (vf_month F - 1)
                                    | 5 => first_n 1 (name_of T_MONTH_WIDE (vf_month F - 1)) | _ => name_of T_MONTH_WIDE (vf_month F - 1) end
  | 119 (* w *) => pad (vf_week F) (over 2 2)
  | 100 (* d *) => pad (vf_day F) (over 2 2)
  | 68 (* D *) => pad (vf_doy F) (over 3 1)
  | 101 (* e *) => match over 8 1 with
                   | 1 => pad (vf_wd F + 1) 1 | 2 => pad (vf_wd F + 1) 2 | 3 => name_of T_WDAY_ABBR (vf_wd F) | 4 => name_of T_WDAY_WIDE (vf_wd F)
                   | 5 => first_n 1 (name_of T_WDAY_WIDE (vf_wd F)) | 6 => first_n 2 (name_of T_WDAY_WIDE (vf_wd F))
                   | 7 => pad ((vf_wd F + 6) mod 7 + 1) 1 | _ => pad ((vf_wd F + 6) mod 7 + 1) 2 end
  | 97 (* a *) => period_text (over 5 3) (12 <=? vf_hour F)
  | 98 (* b *) => let st := over 5 3 in
                  if (vf_hour F =? 0) && (vf_minute F =? 0) && (vf_second F =? 0) then (if st =? 5 then S_[109;105] else S_[109;105;100;110;105;103;104;116])
                  else if (vf_hour F =? 12) && (vf_minute F =? 0) && (vf_second F =? 0) then (if st =? 5 then S_[110] else S_[110;111;111;110])
                  else period_text st (12 <=? vf_hour F)
  | 104 (* h *) => pad (if vf_hour F mod 12 =? 0 then 12 else vf_hour F mod 12) (over 2 2)
  | 72 (* H *) => pad (vf_hour F) (over 2 2)
  | 75 (* K *) => pad (vf_hour F mod 12) (over 2 2)
  | 107 (* k *) => pad (if vf_hour F =? 0 then 24 else vf_hour F) (over 2 2)
  | 109 (* m *) => pad (vf_minute F) (over 2 2)
  | 115 (* s *) => pad (vf_second F) (over 2 2)
  | 110 (* n *) => match over 5 3 with 1 => pad (vf_subsec F / 100000000) 1 | 2 => pad (vf_subsec F / 10000000) 2 | 4 => pad (vf_subsec F / 1000) 6
                                     | 5 => pad (vf_subsec F) 9 | _ => pad (vf_subsec F / 1000000) 3 end
  | 88 (* X *) => zone_text (over 5 3) (vf_offset F) true
  | 120 (* x *) => zone_text (over 5 3) (vf_offset F) false
  | _ => repeat_c sym (Z.to_nat w)
  end.

Definition is_date_sym (c : Z) : bool := existsb (Z.eqb c) [71; 121; 113; 77; 119; 100; 68; 101].
Definition is_time_sym (c : Z) : bool := existsb (Z.eqb c) [97; 98; 104; 72; 75; 107; 109; 115; 110; 88; 120].
(* kind: 0 Date (date symbols only), 1 Time (time symbols only), 2 DateTime *)
Definition understands (kind : Z) (c : Z) : bool :=
  match kind with 0 => is_date_sym c | 1 => is_time_sym c | _ => is_date_sym c || is_time_sym c end.

Definition render_item (kind : Z) (F : vfields) (it : pitem) : text :=
  match it with
  | PField c w => if understands kind c then render_field F c w else repeat_c c (Z.to_nat w)
  | PLit c k => repeat_c c (Z.to_nat k)
  | PQuoted txt => txt
  | PApos k => repeat_c 39 (Z.to_nat k)
  end.
Definition render (kind : Z) (F : vfields) (its : list pitem) : text := flat_map (render_item kind F) its.

(* well-formed item lists: what the tokenizer can tell apart *)
Definition item_char (it : pitem) : option Z := match it with PField c _ | PLit c _ => Some c | _ => None end.
Fixpoint wf_items (its : list pitem) : bool :=
  match its with
  | [] => true
  | it :: tl =>
      (match it with
       | PField c w => (1 <=? w) && (is_date_sym c || is_time_sym c)
       | PLit c k => (1 <=? k) && negb (is_date_sym c || is_time_sym c) && negb (c =? 39) && negb (c =? 0)
       | PQuoted txt => existsb (fun c => negb (c =? 39)) txt && negb (existsb (Z.eqb 0) txt)   (* not apostrophes only: '''' reads as two escaped apostrophes *)
       | PApos k => 1 <=? k end)
      && (match tl with
          | nx :: _ => match item_char it, item_char nx with
                       | Some a, Some b => negb (a =? b)
                       | None, None => false
                       | _, _ => true end
          | [] => true end)
      && wf_items tl
  end.
