(* PartialTrip.v — C12 for patterns that carry only part of a date, of a time of day, or no zone: the fields the pattern
   lacks default to 0001-01-01, 00:00:00 and UTC, parsing the formatted text succeeds, and formatting the parsed value
   with the same pattern reproduces the text. *)
From Astro Require Import Base Text CalSpec DateModel TimeModel ApiModel InstantSpec FormatModel ParseModel PatternSpec ValueFields
  DateProofs WeekProofs WeekFinal TimeProofs ClockProofs OffsetProofs ErrProofs TextProofs PadProofs PatternProofs FieldProofs RoundTrip.

Section AssembleP.
  Variables (d n off : Z) (items : list pitem).
  Hypothesis Hd : in_i32 d.
  Hypothesis Hn : 0 <= n < NANOS_PER_DAY.
  Hypothesis Ho : off_ok off.
  Hypothesis Hok : Forall (fun it => item_ok it = true) items.
  Let R := fold_left apply_exp (map (item_expected d n off) items) (PD0, PT0).
  Local Notation hs := (has d n off items).

  (* the date the parser builds: day of year (with its year) wins; otherwise year, month, day with 1 for what is absent *)
  Definition partial_triple : Z * Z * Z :=
    let '(y, m, dd) := days_to_date d in ((if hs PYear then y else 1), (if hs PMonth then m else 1), (if hs PDayOfMonth then dd else 1)).
  Definition partial_day : Z := if hs PDayOfYear then d else rd partial_triple.

  Lemma partial_triple_valid : (hs PMonth = true \/ hs PDayOfMonth = true -> hs PYear = true) -> valid partial_triple.
  Proof.
    intros HY. unfold partial_triple. destruct (days_to_date_rd d) as [V _]. destruct (days_to_date d) as [[y m] dd]. destruct V as (Vy & Vm & Vd).
    assert (Hd31 : dd <= 31) by (pose proof (mlen_bounds y m); lia).
    destruct (hs PYear) eqn:EY.
    - destruct (hs PMonth), (hs PDayOfMonth); unfold valid; repeat split; try lia; try (pose proof (mlen_bounds y m); lia); try (pose proof (mlen_bounds y 1); lia).
      change (mlen y 1) with 31. lia.
    - destruct (hs PMonth); [specialize (HY (or_introl eq_refl)); discriminate|]. destruct (hs PDayOfMonth); [specialize (HY (or_intror eq_refl)); discriminate|].
      unfold valid. repeat split; try lia. change (mlen 1 1) with 31. lia.
  Qed.

  Lemma assemble_date_p : (hs PDayOfYear = true -> hs PYear = true) -> (hs PMonth = true \/ hs PDayOfMonth = true -> hs PYear = true) ->
    in_i32 partial_day -> date_days_of (fst R) = Ok partial_day.
  Proof.
    intros HDY HY Hr. pose proof (partial_triple_valid HY) as PV. unfold date_days_of.
    change (pd_doy (fst R)) with (get_slot R PDayOfYear). change (pd_year (fst R)) with (get_slot R PYear).
    change (pd_month (fst R)) with (get_slot R PMonth). change (pd_dom (fst R)) with (get_slot R PDayOfMonth).
    unfold R. rewrite !(slot_R d n off items Hok). unfold partial_day, partial_triple in *. cbn [norm_slot]. unfold canon.
    pose proof (year_i32 d Hd) as Yi. destruct (days_to_date_rd d) as [V Erd].
    destruct (days_to_date d) as [[y m] dd]. destruct V as (Vy & Vm & Vd).
    assert (Hd31 : dd <= 31) by (pose proof (mlen_bounds y m); lia).
    destruct (hs PDayOfYear) eqn:Hdoy.
    - rewrite (HDY eq_refl). cbn [oz]. rewrite (wrap_i32_id y) by exact Yi.
      pose proof (cum_bounds y m dd Vm Vd) as Cb. unfold rd in Erd. rewrite rd_jan1.
      assert (Hr' : 1 <= 1 + d - ystart (astro y) <= ylen y) by lia.
      rewrite wrap_u32_id by (unfold U32_MAX, ylen in *; destruct (leap y); lia).
      destruct (year_doy_to_days_spec y (1 + d - ystart (astro y)) ltac:(lia)) as [A _]. rewrite A.
      + f_equal. rewrite rd_jan1. lia.
      + split; [exact Vy|]. split; [exact Hr'|]. rewrite rd_jan1. replace (ystart (astro y) + (1 + d - ystart (astro y)) - 1) with d by lia. exact Hd.
    - set (py := if hs PYear then y else 1) in *. set (pm := if hs PMonth then m else 1) in *. set (pdd := if hs PDayOfMonth then dd else 1) in *.
      assert (E1 : oz (if hs PYear then Some (wrap_i32 y) else None) 1 = py) by (subst py; destruct (hs PYear); cbn [oz]; [apply wrap_i32_id; exact Yi | reflexivity]).
      assert (E2 : oz (if hs PMonth then Some (wrap_u32 m) else None) 1 = pm) by (subst pm; destruct (hs PMonth); cbn [oz]; [apply wrap_u32_id; unfold U32_MAX; lia | reflexivity]).
      assert (E3 : oz (if hs PDayOfMonth then Some (wrap_u32 dd) else None) 1 = pdd) by (subst pdd; destruct (hs PDayOfMonth); cbn [oz]; [apply wrap_u32_id; unfold U32_MAX; lia | reflexivity]).
      rewrite E1, E2, E3. apply date_to_days_ok; [exact PV|]. apply in_range_rd; [exact PV | exact Hr].
  Qed.

  (* the time of day the parser builds *)
  Variable sel : option punit.
  Hypothesis Hsel : match sel with Some s => is_sub s = true | None => True end.
  Hypothesis Hsub : forall u, is_sub u = true -> hs u = match sel with Some s => punit_eqb s u | None => false end.
  Definition partial_hour : Z :=
    let h := n / NANOS_PER_HOUR in
    if hs PHour then h else (if hs PPeriodHour then h mod 12 else 0) + (if hs PPeriod then (if h <? 12 then 0 else 12) else 0).
  Definition partial_clock : Z :=
    partial_hour * 3600 * NANOS_PER_SEC + (if hs PMinute then n / NANOS_PER_MINUTE mod 60 else 0) * 60 * NANOS_PER_SEC
    + (if hs PSecond then n / NANOS_PER_SEC mod 60 else 0) * NANOS_PER_SEC
    + (match sel with Some s => n mod NANOS_PER_SEC / sub_scale s * sub_scale s | None => 0 end).

  Lemma partial_hour_bound : 0 <= partial_hour < 24.
  Proof.
    unfold partial_hour. cbv zeta. set (h := n / NANOS_PER_HOUR). assert (Bh : 0 <= h < 24) by (subst h; revert Hn; unfold_consts; intros; lia).
    pose proof (Z.mod_pos_bound h 12 ltac:(lia)). destruct (hs PHour), (hs PPeriodHour), (hs PPeriod), (h <? 12); lia.
  Qed.
  Lemma sub_part_bound : 0 <= (match sel with Some s => n mod NANOS_PER_SEC / sub_scale s * sub_scale s | None => 0 end) < 1000000000.
  Proof.
    pose proof (Z.mod_pos_bound n NANOS_PER_SEC ltac:(unfold NANOS_PER_SEC; lia)) as B. unfold NANOS_PER_SEC in *.
    destruct sel as [s0|]; [|lia]. destruct s0; try discriminate Hsel; cbn [sub_scale]; lia.
  Qed.
  Lemma partial_clock_bound : 0 <= partial_clock < NANOS_PER_DAY.
  Proof.
    unfold partial_clock. pose proof partial_hour_bound. pose proof sub_part_bound.
    assert (0 <= (if hs PMinute then n / NANOS_PER_MINUTE mod 60 else 0) < 60) by (destruct (hs PMinute); lia).
    assert (0 <= (if hs PSecond then n / NANOS_PER_SEC mod 60 else 0) < 60) by (destruct (hs PSecond); lia).
    unfold NANOS_PER_DAY, NANOS_PER_SEC in *. lia.
  Qed.

  Lemma assemble_time_p : time_nanos (snd R) = partial_clock.
  Proof.
    unfold time_nanos.
    change (pt_hour (snd R)) with (get_slot R PHour). change (pt_phour (snd R)) with (get_slot R PPeriodHour).
    change (pt_period (snd R)) with (get_slot R PPeriod). change (pt_minute (snd R)) with (get_slot R PMinute).
    change (pt_second (snd R)) with (get_slot R PSecond). change (pt_decis (snd R)) with (get_slot R PDecis).
    change (pt_centis (snd R)) with (get_slot R PCentis). change (pt_millis (snd R)) with (get_slot R PMillis).
    change (pt_micros (snd R)) with (get_slot R PMicros). change (pt_nanos (snd R)) with (get_slot R PNanos).
    unfold R. rewrite !(slot_R d n off items Hok).
    rewrite (Hsub PDecis eq_refl), (Hsub PCentis eq_refl), (Hsub PMillis eq_refl), (Hsub PMicros eq_refl), (Hsub PNanos eq_refl).
    cbn [norm_slot]. unfold canon, partial_clock, partial_hour. destruct (days_to_date d) as [[y m] dd]. cbv zeta.
    set (h := n / NANOS_PER_HOUR). set (mi := n / NANOS_PER_MINUTE mod 60). set (s := n / NANOS_PER_SEC mod 60). set (ss := n mod NANOS_PER_SEC).
    assert (Bh : 0 <= h < 24) by (subst h; revert Hn; unfold_consts; intros; lia).
    assert (Bmi : 0 <= mi < 60) by (subst mi; lia). assert (Bs : 0 <= s < 60) by (subst s; lia).
    assert (Bss : 0 <= ss < 1000000000) by (subst ss; unfold NANOS_PER_SEC; lia).
    assert (W : forall x, 0 <= x < 1000000000 -> wrap_u64 x = x) by (intros; unfold wrap_u64; lia).
    pose proof (Z.mod_pos_bound h 12 ltac:(lia)) as Bh12.
    assert (Hour : (match (if hs PHour then Some (wrap_u64 h) else None) with
                    | Some h0 => h0 * 3600 * NANOS_PER_SEC
                    | None => (oz (if hs PPeriodHour then Some (wrap_u64 (h mod 12)) else None) 0 +
                               oz (if hs PPeriod then Some (if (if h <? 12 then 0 else 1) =? 0 then 0 else 12) else None) 0) * 3600 * NANOS_PER_SEC end)
                   = (if hs PHour then h else (if hs PPeriodHour then h mod 12 else 0) + (if hs PPeriod then (if h <? 12 then 0 else 12) else 0)) * 3600 * NANOS_PER_SEC).
    { destruct (hs PHour); [rewrite W by lia; reflexivity|]. f_equal. f_equal. f_equal.
      - destruct (hs PPeriodHour); cbn [oz]; [apply W; lia | reflexivity].
      - destruct (hs PPeriod); cbn [oz]; [|reflexivity]. destruct (h <? 12); reflexivity. }
    rewrite Hour. clear Hour.
    assert (Emi : oz (if hs PMinute then Some (wrap_u64 mi) else None) 0 = (if hs PMinute then mi else 0)) by (destruct (hs PMinute); cbn [oz]; [apply W; lia | reflexivity]).
    assert (Es : oz (if hs PSecond then Some (wrap_u64 s) else None) 0 = (if hs PSecond then s else 0)) by (destruct (hs PSecond); cbn [oz]; [apply W; lia | reflexivity]).
    rewrite Emi, Es.
    set (HH := if hs PHour then h else (if hs PPeriodHour then h mod 12 else 0) + (if hs PPeriod then if h <? 12 then 0 else 12 else 0)).
    set (MM := if hs PMinute then mi else 0). set (SS := if hs PSecond then s else 0).
    clearbody HH MM SS. clearbody h mi s ss. unfold NANOS_PER_SEC.
    destruct sel as [s0|].
    - assert (Wd : forall k, 0 < k -> wrap_u64 (ss / k) = ss / k).
      { intros k Hk. apply W. split; [apply Z.div_pos; lia|]. apply Z.div_lt_upper_bound; [lia|]. nia. }
      destruct s0; try discriminate Hsel; cbn [punit_eqb oz sub_scale]; rewrite ?Wd by lia; rewrite ?W by lia; lia.
    - cbn [oz]. lia.
  Qed.
End AssembleP.

(* ================= parsing the formatted text: what comes back ================= *)
Definition partial_off (d n off : Z) (items : list pitem) : Z := if has d n off items POffset then off else 0.

Theorem dt_parse_partial now v items sel : Valid_dt v -> swf None items = true ->
  let L := local_instant v in let d := L / NANOS_PER_DAY in let n := L mod NANOS_PER_DAY in let off := dt_off v in
  fits_chain d off (fields_of_day d n off) items [] ->
  (has d n off items PDayOfYear = true -> has d n off items PYear = true) ->
  (has d n off items PMonth = true \/ has d n off items PDayOfMonth = true -> has d n off items PYear = true) ->
  match sel with Some s => is_sub s = true | None => True end ->
  (forall u, is_sub u = true -> has d n off items u = match sel with Some s => punit_eqb s u | None => false end) ->
  let d' := partial_day d n off items in let n' := partial_clock d n off items sel in let off' := partial_off d n off items in
  in_i32 d' -> inst_in_range (d' * NANOS_PER_DAY + n' - off' * NANOS_PER_SEC) ->
  exists txt v', dt_format v (unparse items) = Ok txt /\ dt_parse now txt (unparse items) = Ok v' /\
    dt_off v' = off' /\ local_instant v' = d' * NANOS_PER_DAY + n' /\ Valid_dt v'.
Proof.
  intros Hv Hswf. cbv zeta. set (L := local_instant v). set (d := L / NANOS_PER_DAY). set (n := L mod NANOS_PER_DAY). set (off := dt_off v).
  intros Hfit HDY HY Hsel Hsub Hd' Hrng.
  pose proof Hv as [I Lr]. fold L in Lr. destruct (split_ok L Lr) as (_ & Hdi & Hn & HLs). unfold D in *. fold d n in Hdi, Hn, HLs.
  assert (Ho : off_ok off) by (destruct I as (_ & _ & O); exact O).
  pose proof (swf_items_ok items None Hswf) as Hok.
  exists (render 2 (fields_of_day d n off) items). rewrite (dt_format_items v items Hv Hswf). fold L d n off.
  set (F := fields_of_day d n off) in *.
  assert (Ad : date_fields_agree F d) by apply fields_date_agree. assert (At : time_fields_agree F n off) by (apply fields_time_agree; exact Hn).
  unfold dt_parse. rewrite (tokenizer_items items Hswf).
  rewrite <- (app_nil_r (render 2 F items)).
  pose proof (loop_back now F d n off Hdi Hn Ho Ad At items (PD0, PT0) [] Hok Hfit) as LB. cbn [fst snd] in LB. rewrite LB. clear LB. cbn [bind].
  pose proof (assemble_date_p d n off items Hdi Hok HDY HY Hd') as AD.
  pose proof (assemble_time_p d n off items Hn Hok sel Hsel Hsub) as AT.
  pose proof (partial_clock_bound d n off items Hn sel Hsel Hsub) as Bn.
  pose proof (slot_R d n off items Hok POffset) as SO. cbn [norm_slot] in SO.
  assert (Ec : canon d n off POffset = off) by (unfold canon; destruct (days_to_date d) as [[? ?] ?]; reflexivity). rewrite Ec in SO.
  assert (Ew : wrap_i32 off = off) by (unfold off_ok, SECS_PER_DAY in Ho; unfold wrap_i32; lia). rewrite Ew in SO.
  unfold partial_off in *.
  set (d' := partial_day d n off items) in *. set (n' := partial_clock d n off items sel) in *.
  set (R := fold_left apply_exp (map (item_expected d n off) items) (PD0, PT0)) in *. destruct R as [pd pt]. cbn [fst snd get_slot] in AD, AT, SO.
  rewrite AD. cbn [bind]. rewrite AT.
  unfold time_from_nanos. destruct (Z.leb_spec NANOS_PER_DAY n'); [lia|]. cbn [bind tm_nanos]. rewrite SO.
  destruct (has d n off items POffset).
  - destruct (c10_offset_from_seconds off) as [Oa _]. rewrite (Oa Ho). cbn [bind].
    unfold try_remove_offset_from_dn. rewrite days_nanos_to_nanos_spec.
    destruct (split_ok _ Hrng) as (E & Hq & Hr & Hsum). rewrite E. cbn [bind].
    eexists. split; [reflexivity|]. split; [reflexivity|]. cbn [dt_off]. split; [reflexivity|]. unfold D in *.
    assert (EL : local_instant (mkDT ((d' * NANOS_PER_DAY + n' - off * NANOS_PER_SEC) / NANOS_PER_DAY) ((d' * NANOS_PER_DAY + n' - off * NANOS_PER_SEC) mod NANOS_PER_DAY) off) = d' * NANOS_PER_DAY + n').
    { unfold local_instant, instant. cbn [dt_days dt_nanos dt_off]. rewrite Hsum. lia. }
    split; [exact EL|]. split.
    + unfold Inv_dt. cbn [dt_days dt_nanos dt_off]. tauto.
    + rewrite EL. apply day_in_range; [exact Hd' | exact Bn].
  - eexists. split; [reflexivity|]. split; [reflexivity|]. cbn [dt_off]. split; [reflexivity|].
    assert (EL : local_instant (mkDT d' n' 0) = d' * NANOS_PER_DAY + n') by (unfold local_instant, instant; cbn [dt_days dt_nanos dt_off]; lia).
    split; [exact EL|]. split.
    + unfold Inv_dt. cbn [dt_days dt_nanos dt_off]. split; [exact Hd'|]. split; [exact Bn | apply off_ok_0].
    + rewrite EL. apply day_in_range; [exact Hd' | exact Bn].
Qed.

(* ================= formatting the parsed value again ================= *)
(* what a symbol reads of the value *)
Definition agree (c w : Z) (F F' : vfields) : Prop :=
  match c with
  | 71 => vf_bc F' = vf_bc F
  | 121 => vf_year F' = vf_year F
  | 113 | 77 => vf_month F' = vf_month F
  | 119 => vf_week F' = vf_week F
  | 100 => vf_day F' = vf_day F
  | 68 => vf_doy F' = vf_doy F
  | 101 => vf_wd F' = vf_wd F
  | 97 => (12 <=? vf_hour F') = (12 <=? vf_hour F)
  | 98 => vf_hour F' = vf_hour F /\ vf_minute F' = vf_minute F /\ vf_second F' = vf_second F
  | 104 | 75 => vf_hour F' mod 12 = vf_hour F mod 12
  | 72 | 107 => vf_hour F' = vf_hour F
  | 109 => vf_minute F' = vf_minute F
  | 115 => vf_second F' = vf_second F
  | 110 => vf_subsec F' / 10 ^ (9 - n_digits w) = vf_subsec F / 10 ^ (9 - n_digits w)
  | 88 | 120 => vf_offset F' = vf_offset F
  | _ => True
  end.
Lemma render_field_agree F F' c w : 1 <= w -> agree c w F F' -> render_field F' c w = render_field F c w.
Proof.
  intros Hw H. destruct (Z.eq_dec c 110) as [->|Hc].
  - cbn [agree] in H. unfold render_field. cbv zeta. unfold n_digits in H.
    assert (C : w = 1 \/ w = 2 \/ w = 3 \/ w = 4 \/ w = 5 \/ 5 < w) by lia.
    destruct C as [-> | [-> | [-> | [-> | [-> | C]]]]]; cbn [Z.ltb Z.compare Pos.compare Pos.compare_cont Z.eqb Pos.eqb] in *.
    + change (10 ^ (9 - 1)) with 100000000 in H. rewrite H. reflexivity.
    + change (10 ^ (9 - 2)) with 10000000 in H. rewrite H. reflexivity.
    + change (10 ^ (9 - 3)) with 1000000 in H. rewrite H. reflexivity.
    + change (10 ^ (9 - 6)) with 1000 in H. rewrite H. reflexivity.
    + change (10 ^ (9 - 9)) with 1 in H. rewrite !Z.div_1_r in H. rewrite H. reflexivity.
    + destruct (Z.ltb_spec 5 w); [|lia]. change (10 ^ (9 - 3)) with 1000000 in H. cbn [Z.eqb]. rewrite H. reflexivity.
  - destruct c as [|p|p]; try reflexivity. do 7 (try destruct p as [p|p|]); try reflexivity; try contradiction;
      cbn [agree] in H; unfold render_field; cbv zeta;
      first [rewrite H; reflexivity | destruct H as (A & B & C); rewrite A, B, C; reflexivity].
Qed.

Lemma render_agree kind F F' items : Forall (fun it => item_ok it = true) items ->
  (forall c w, In (PField c w) items -> understands kind c = true -> agree c w F F') -> render kind F' items = render kind F items.
Proof.
  intros Hok H. unfold render. rewrite !flat_map_concat_map. f_equal. apply map_ext_in. intros it Hin.
  rewrite Forall_forall in Hok. specialize (Hok it Hin). destruct it as [c w | c k | txt | k]; cbn [render_item]; try reflexivity.
  cbn [item_ok] in Hok. apply andb_true_iff in Hok as [Hw _]. apply Z.leb_le in Hw.
  destruct (understands kind c) eqn:U; [|reflexivity]. apply render_field_agree; [exact Hw | apply H; assumption].
Qed.

Lemma clock_decomp H M S X : 0 <= H < 24 -> 0 <= M < 60 -> 0 <= S < 60 -> 0 <= X < 1000000000 ->
  let c := H * 3600 * NANOS_PER_SEC + M * 60 * NANOS_PER_SEC + S * NANOS_PER_SEC + X in
  c / NANOS_PER_HOUR = H /\ c / NANOS_PER_MINUTE mod 60 = M /\ c / NANOS_PER_SEC mod 60 = S /\ c mod NANOS_PER_SEC = X.
Proof. intros HH HM HS HX. cbv zeta. unfold_consts. repeat split; lia. Qed.
Lemma dtd_rd x : valid x -> days_to_date (rd x) = x.
Proof. intros V. destruct (days_to_date_rd (rd x)) as [V' E]. apply rd_inj; assumption. Qed.

Lemma has_of_field d n off items c w u : In (PField c w) items -> (exists val, item_expected d n off (PField c w) = Some (u, val)) ->
  has d n off items u = true.
Proof.
  intros Hin [val E]. unfold has. apply existsb_exists. exists (item_expected d n off (PField c w)). split; [apply in_map; exact Hin|].
  rewrite E. cbn [sets_unit]. apply punit_eqb_eq. reflexivity.
Qed.
Ltac expected_of := unfold item_expected, expected_date, expected_time; cbn [is_date_sym is_time_sym existsb Z.eqb Pos.eqb orb];
  try (destruct (days_to_date _) as [[? ?] ?]); eexists; reflexivity.

Section Reformat.
  Variables (d n off : Z) (items : list pitem) (sel : option punit).
  Hypothesis Hd : in_i32 d.
  Hypothesis Hn : 0 <= n < NANOS_PER_DAY.
  Hypothesis Hok : Forall (fun it => item_ok it = true) items.
  Local Notation hs := (has d n off items).
  Hypothesis Hsel : match sel with Some s => is_sub s = true | None => True end.
  Hypothesis Hsub : forall u, is_sub u = true -> hs u = match sel with Some s => punit_eqb s u | None => false end.
  Hypothesis HYany : hs PMonth = true \/ hs PDayOfMonth = true \/ hs PDayOfYear = true -> hs PYear = true.
  Definition full_date : Prop := hs PDayOfYear = true \/ (hs PYear = true /\ hs PMonth = true /\ hs PDayOfMonth = true).
  Definition sym_in (c : Z) : Prop := exists w, In (PField c w) items.
  Hypothesis Hderived : forall c, sym_in c -> c = 71 \/ c = 113 \/ c = 119 \/ c = 101 -> full_date.
  Hypothesis Hb : sym_in 98 -> (hs PHour = true \/ hs PPeriodHour = true) /\ hs PMinute = true /\ hs PSecond = true.
  Let d' := partial_day d n off items.
  Let n' := partial_clock d n off items sel.
  Let off' := partial_off d n off items.
  Let F := fields_of_day d n off.
  Let F' := fields_of_day d' n' off'.

  Lemma full_same : full_date -> d' = d.
  Proof.
    intros Hf. unfold d', partial_day. destruct (hs PDayOfYear) eqn:E; [reflexivity|].
    destruct Hf as [X | (HY & HM & HD)]; [congruence|]. unfold partial_triple. rewrite HY, HM, HD.
    destruct (days_to_date_rd d) as [_ Erd]. destruct (days_to_date d) as [[y m] dd]. exact Erd.
  Qed.
  Lemma part_triple : hs PDayOfYear = false -> days_to_date d' = partial_triple d n off items.
  Proof.
    intros E. unfold d', partial_day. rewrite E. apply dtd_rd. apply partial_triple_valid. intros [X | X]; apply HYany; tauto.
  Qed.

  Lemma date_agree c w : In (PField c w) items -> is_date_sym c = true -> agree c w F F'.
  Proof.
    intros Hin Hc.
    assert (Cs : c = 71 \/ c = 121 \/ c = 113 \/ c = 77 \/ c = 119 \/ c = 100 \/ c = 68 \/ c = 101).
    { unfold is_date_sym in Hc. cbn [existsb] in Hc. rewrite !orb_true_iff, !Z.eqb_eq in Hc. intuition discriminate. }
    assert (Same : d' = d -> agree c w F F').
    { intros E. unfold F', F. rewrite E. unfold fields_of_day. destruct (days_to_date d) as [[y m] dd].
      destruct Cs as [-> | [-> | [-> | [-> | [-> | [-> | [-> | ->]]]]]]]; cbn [agree]; reflexivity. }
    assert (ED : hs PDayOfYear = true \/ hs PDayOfYear = false) by (destruct (hs PDayOfYear); tauto).
    destruct ED as [ED | ED]; [apply Same, full_same; left; exact ED|].
    destruct Cs as [-> | [-> | [-> | [-> | [-> | [-> | [-> | ->]]]]]]].
    - apply Same, full_same, (Hderived 71); [exists w; exact Hin | tauto].
    - assert (HY : hs PYear = true) by (apply (has_of_field d n off items 121 w); [exact Hin | expected_of]).
      cbn [agree]. unfold F', F, fields_of_day. rewrite (part_triple ED). unfold partial_triple. rewrite HY. destruct (days_to_date d) as [[y m] dd]. reflexivity.
    - apply Same, full_same, (Hderived 113); [exists w; exact Hin | tauto].
    - assert (HM : hs PMonth = true) by (apply (has_of_field d n off items 77 w); [exact Hin | expected_of]).
      cbn [agree]. unfold F', F, fields_of_day. rewrite (part_triple ED). unfold partial_triple. rewrite HM. destruct (days_to_date d) as [[y m] dd]. reflexivity.
    - apply Same, full_same, (Hderived 119); [exists w; exact Hin | tauto].
    - assert (HD : hs PDayOfMonth = true) by (apply (has_of_field d n off items 100 w); [exact Hin | expected_of]).
      cbn [agree]. unfold F', F, fields_of_day. rewrite (part_triple ED). unfold partial_triple. rewrite HD. destruct (days_to_date d) as [[y m] dd]. reflexivity.
    - assert (HD : hs PDayOfYear = true) by (apply (has_of_field d n off items 68 w); [exact Hin | expected_of]). congruence.
    - apply Same, full_same, (Hderived 101); [exists w; exact Hin | tauto].
  Qed.

  Lemma clock_parts :
    let h := n / NANOS_PER_HOUR in
    vf_hour F' = partial_hour d n off items /\
    vf_minute F' = (if hs PMinute then n / NANOS_PER_MINUTE mod 60 else 0) /\
    vf_second F' = (if hs PSecond then n / NANOS_PER_SEC mod 60 else 0) /\
    vf_subsec F' = (match sel with Some s => n mod NANOS_PER_SEC / sub_scale s * sub_scale s | None => 0 end) /\
    vf_offset F' = off'.
  Proof.
    cbv zeta. unfold F', fields_of_day. destruct (days_to_date d') as [[y m] dd]. cbn [vf_hour vf_minute vf_second vf_subsec vf_offset].
    unfold n', partial_clock.
    pose proof (partial_hour_bound d n off items Hn) as BH. pose proof (sub_part_bound d n off items sel Hsel Hsub) as BX.
    assert (BM : 0 <= (if hs PMinute then n / NANOS_PER_MINUTE mod 60 else 0) < 60) by (destruct (hs PMinute); lia).
    assert (BS : 0 <= (if hs PSecond then n / NANOS_PER_SEC mod 60 else 0) < 60) by (destruct (hs PSecond); lia).
    destruct (clock_decomp _ _ _ _ BH BM BS BX) as (A & B & C & E). repeat split; assumption.
  Qed.

  Lemma time_agree c w : In (PField c w) items -> is_time_sym c = true -> agree c w F F'.
  Proof.
    intros Hin Hc.
    assert (Cs : c = 97 \/ c = 98 \/ c = 104 \/ c = 72 \/ c = 75 \/ c = 107 \/ c = 109 \/ c = 115 \/ c = 110 \/ c = 88 \/ c = 120).
    { unfold is_time_sym in Hc. cbn [existsb] in Hc. rewrite !orb_true_iff, !Z.eqb_eq in Hc. intuition discriminate. }
    destruct clock_parts as (EH & EM & ES & EX & EO). cbv zeta in EH.
    assert (FH : vf_hour F = n / NANOS_PER_HOUR /\ vf_minute F = n / NANOS_PER_MINUTE mod 60 /\ vf_second F = n / NANOS_PER_SEC mod 60 /\
                 vf_subsec F = n mod NANOS_PER_SEC /\ vf_offset F = off).
    { unfold F, fields_of_day. destruct (days_to_date d) as [[y m] dd]. cbn. repeat split; reflexivity. }
    destruct FH as (GH & GM & GS & GX & GO).
    set (h := n / NANOS_PER_HOUR) in *. assert (Bh : 0 <= h < 24) by (subst h; revert Hn; unfold_consts; intros; lia).
    pose proof (Z.mod_pos_bound h 12 ltac:(lia)) as Bh12.
    unfold partial_hour in EH. cbv zeta in EH. fold h in EH.
    destruct Cs as [-> | [-> | [-> | [-> | [-> | [-> | [-> | [-> | [-> | [-> | ->]]]]]]]]]]; cbn [agree].
    - (* a *) assert (HP : hs PPeriod = true) by (apply (has_of_field d n off items 97 w); [exact Hin | expected_of]).
      rewrite EH, GH, HP. destruct (hs PHour); [reflexivity|]. destruct (hs PPeriodHour), (Z.ltb_spec h 12); lia.
    - (* b *) assert (HP : hs PPeriod = true) by (apply (has_of_field d n off items 98 w); [exact Hin | expected_of]).
      destruct (Hb (ex_intro _ w Hin)) as (HH & HM & HS). rewrite EH, EM, ES, GH, GM, GS, HM, HS, HP. repeat split.
      destruct (hs PHour); [reflexivity|]. destruct HH as [X | X]; [discriminate|]. rewrite X. destruct (Z.ltb_spec h 12); lia.
    - (* h *) assert (HP : hs PPeriodHour = true) by (apply (has_of_field d n off items 104 w); [exact Hin | expected_of]).
      rewrite EH, GH, HP. destruct (hs PHour); [reflexivity|]. destruct (hs PPeriod), (Z.ltb_spec h 12); lia.
    - (* H *) assert (HP : hs PHour = true) by (apply (has_of_field d n off items 72 w); [exact Hin | expected_of]). rewrite EH, GH, HP. reflexivity.
    - (* K *) assert (HP : hs PPeriodHour = true) by (apply (has_of_field d n off items 75 w); [exact Hin | expected_of]).
      rewrite EH, GH, HP. destruct (hs PHour); [reflexivity|]. destruct (hs PPeriod), (Z.ltb_spec h 12); lia.
    - (* k *) assert (HP : hs PHour = true) by (apply (has_of_field d n off items 107 w); [exact Hin | expected_of]). rewrite EH, GH, HP. reflexivity.
    - (* m *) assert (HP : hs PMinute = true) by (apply (has_of_field d n off items 109 w); [exact Hin | expected_of]). rewrite EM, GM, HP. reflexivity.
    - (* s *) assert (HP : hs PSecond = true) by (apply (has_of_field d n off items 115 w); [exact Hin | expected_of]). rewrite ES, GS, HP. reflexivity.
    - (* n *) pose proof (n_item_has d n off items w Hin) as Hh'.
      rewrite Forall_forall in Hok. pose proof (Hok _ Hin) as Hi. cbn [item_ok] in Hi. apply andb_true_iff in Hi as [Hw _]. apply Z.leb_le in Hw.
      destruct (n_unit_scale w Hw) as [Esc Hsb]. rewrite (Hsub _ Hsb) in Hh'. destruct sel as [s0|]; [|discriminate]. apply punit_eqb_eq in Hh'. subst s0.
      rewrite EX, GX, <- Esc. apply Z.div_mul. destruct (n_unit w); cbn [sub_scale]; lia.
    - (* X *) assert (HP : hs POffset = true) by (apply (has_of_field d n off items 88 w); [exact Hin | expected_of]).
      rewrite EO, GO. unfold off', partial_off. rewrite HP. reflexivity.
    - (* x *) assert (HP : hs POffset = true) by (apply (has_of_field d n off items 120 w); [exact Hin | expected_of]).
      rewrite EO, GO. unfold off', partial_off. rewrite HP. reflexivity.
  Qed.

  Lemma render_partial_same : render 2 F' items = render 2 F items.
  Proof.
    apply render_agree; [exact Hok|]. intros c w Hin U. cbn [understands] in U. apply orb_true_iff in U as [U | U]; [apply date_agree | apply time_agree]; assumption.
  Qed.
End Reformat.

(* ================= C12 for DateTime, any part of a date, of a time of day, with or without a zone ================= *)
Theorem dt_roundtrip_partial now v items sel : Valid_dt v -> swf None items = true ->
  let L := local_instant v in let d := L / NANOS_PER_DAY in let n := L mod NANOS_PER_DAY in let off := dt_off v in
  let hs := has d n off items in
  fits_chain d off (fields_of_day d n off) items [] ->
  (* month, day of month, day of year are read relative to a year: the pattern must carry it *)
  (hs PMonth = true \/ hs PDayOfMonth = true \/ hs PDayOfYear = true -> hs PYear = true) ->
  (* era, quarter, week and weekday are written but not read back: they need the full date next to them *)
  (forall c, sym_in items c -> c = 71 \/ c = 113 \/ c = 119 \/ c = 101 -> full_date d n off items) ->
  (* noon / midnight depend on hour, minute and second *)
  (sym_in items 98 -> (hs PHour = true \/ hs PPeriodHour = true) /\ hs PMinute = true /\ hs PSecond = true) ->
  (* at most one kind of fraction field *)
  match sel with Some s => is_sub s = true | None => True end ->
  (forall u, is_sub u = true -> hs u = match sel with Some s => punit_eqb s u | None => false end) ->
  let d' := partial_day d n off items in let n' := partial_clock d n off items sel in let off' := partial_off d n off items in
  (* the value with the defaults filled in is representable *)
  in_i32 d' -> inst_in_range (d' * NANOS_PER_DAY + n' - off' * NANOS_PER_SEC) ->
  exists txt v', dt_format v (unparse items) = Ok txt /\ dt_parse now txt (unparse items) = Ok v' /\
    dt_off v' = off' /\ local_instant v' = d' * NANOS_PER_DAY + n' /\ Valid_dt v' /\
    dt_format v' (unparse items) = Ok txt.
Proof.
  intros Hv Hswf. cbv zeta. set (L := local_instant v). set (d := L / NANOS_PER_DAY). set (n := L mod NANOS_PER_DAY). set (off := dt_off v).
  intros Hfit HYany Hder Hb Hsel Hsub Hd' Hrng.
  assert (HDY : has d n off items PDayOfYear = true -> has d n off items PYear = true) by (intros X; apply HYany; tauto).
  assert (HY : has d n off items PMonth = true \/ has d n off items PDayOfMonth = true -> has d n off items PYear = true) by (intros X; apply HYany; tauto).
  destruct (dt_parse_partial now v items sel Hv Hswf Hfit HDY HY Hsel Hsub Hd' Hrng) as (txt & v' & Ef & Ep & Eo & El & Vv').
  exists txt, v'. repeat (split; [assumption|]).
  pose proof Hv as [I Lr]. fold L in Lr. destruct (split_ok L Lr) as (_ & Hdi & Hn & HLs). unfold D in *. fold d n in Hdi, Hn, HLs.
  pose proof (swf_items_ok items None Hswf) as Hok.
  rewrite (dt_format_items v items Hv Hswf) in Ef. injection Ef as <-. rewrite (dt_format_items v' items Vv' Hswf). f_equal.
  rewrite El, Eo. fold L. fold d n off.
  pose proof (partial_clock_bound d n off items Hn sel Hsel Hsub) as Bn.
  set (d' := partial_day d n off items) in *. set (n' := partial_clock d n off items sel) in *.
  assert (E1 : (d' * NANOS_PER_DAY + n') / NANOS_PER_DAY = d') by (unfold NANOS_PER_DAY in *; lia).
  assert (E2 : (d' * NANOS_PER_DAY + n') mod NANOS_PER_DAY = n') by (unfold NANOS_PER_DAY in *; lia).
  rewrite E1, E2. apply (render_partial_same d n off items sel Hn Hok Hsel Hsub HYany Hder Hb).
Qed.

(* non-vacuity: yyyy-MM HH:mm on 2022-05-02T14:00:20.123456789 at -00:30 reads back as 2022-05-01T14:00:00 UTC *)
Definition px_items : list pitem := [PField 121 4; PLit 45 1; PField 77 2; PLit 32 1; PField 72 2; PLit 58 1; PField 109 2].
Definition px_v : DT := mkDT 738276 52220123456789 (-1800).
Example partial_example :
  let L := local_instant px_v in let d := L / NANOS_PER_DAY in let n := L mod NANOS_PER_DAY in let off := dt_off px_v in
  let hs := has d n off px_items in
  Valid_dt px_v /\ swf None px_items = true /\ fits_chain d off (fields_of_day d n off) px_items [] /\
  (hs PMonth = true \/ hs PDayOfMonth = true \/ hs PDayOfYear = true -> hs PYear = true) /\
  (forall c, sym_in px_items c -> c = 71 \/ c = 113 \/ c = 119 \/ c = 101 -> full_date d n off px_items) /\
  (sym_in px_items 98 -> (hs PHour = true \/ hs PPeriodHour = true) /\ hs PMinute = true /\ hs PSecond = true) /\
  (forall u, is_sub u = true -> hs u = false) /\
  partial_day d n off px_items = 738275 /\ partial_clock d n off px_items None = 50400000000000 /\ partial_off d n off px_items = 0 /\
  render 2 (fields_of_day d n off) px_items = [50;48;50;50;45;48;53;32;49;52;58;48;48].
Proof.
  cbv zeta. split.
  { unfold Valid_dt, px_v, Inv_dt, inst_in_range, local_instant, instant, MIN_I, MAX_I, in_i32, off_ok. cbn [dt_days dt_nanos dt_off].
    unfold NANOS_PER_DAY, NANOS_PER_SEC, SECS_PER_DAY, I32_MIN, I32_MAX. lia. }
  split; [vm_compute; reflexivity|]. split.
  { vm_compute. repeat split; intros; try discriminate; try reflexivity; try lia. }
  split; [intros _; vm_compute; reflexivity|].
  assert (NoSym : forall c, sym_in px_items c -> c = 121 \/ c = 77 \/ c = 72 \/ c = 109).
  { intros c [w Hin]. unfold px_items in Hin. cbn [In] in Hin.
    repeat (destruct Hin as [E | Hin]; [inversion E; subst; tauto|]). contradiction. }
  split; [intros c Hc Hx; destruct (NoSym c Hc) as [-> | [-> | [-> | ->]]]; lia|].
  split; [intros Hc; destruct (NoSym 98 Hc) as [X | [X | [X | X]]]; discriminate X|].
  split; [intros u Hu; destruct u; try discriminate Hu; vm_compute; reflexivity|].
  repeat split; vm_compute; reflexivity.
Qed.
