(* C13 — RFC 3339 timestamps are read and written exactly.
   RfcSpec: rfc_split recognises RFC 3339 section 5.6 `date-time` with upper-case T and Z (4-2-2 digits, T, 2:2:2 digits,
   optional "." and one or more fraction digits, then Z or +/-hh:mm) and returns its parts; rfc_in_range says the
   fields are in range (a valid calendar date - so year 0000, 30 February, month 13 are out -, hour <= 23, minute and
   second <= 59, offset hour <= 23 and minute <= 59); rfc_denote gives the instant (nanoseconds since 0001-01-01T00:00Z,
   fraction truncated to nine digits) and the offset in seconds the text denotes.  Model: ParseModel.dt_parse_rfc3339 and
   dt_format_rfc3339 (= DateTime::format with the pattern yyyy-MM-ddTHH:mm:ss[.n..]XXX through FormatModel). *)
From Astro Require Import Base Text CalSpec DateModel TimeModel ApiModel InstantSpec FormatModel ParseModel ClockProofs TextProofs RfcSpec RfcProofs.

(* READ: every grammatical timestamp with in-range fields - ANY number of fraction digits - is accepted and the result
   is exactly the denoted instant and offset, a valid DateTime *)
Theorem C13_parse_accepts : forall s p, rfc_split s = Some p -> rfc_in_range p = true ->
  exists v, dt_parse_rfc3339 s = Ok v /\ instant v = fst (rfc_denote p) /\ dt_off v = snd (rfc_denote p) /\
            Inv_dt v /\ inst_in_range (local_instant v).
Proof. exact rfc_parse_accepts. Qed.
(* ... a grammatical timestamp with a field out of range is rejected with an error *)
Theorem C13_parse_rejects : forall s p, rfc_split s = Some p -> rfc_in_range p = false -> exists e, dt_parse_rfc3339 s = Err e.
Proof. exact rfc_parse_rejects. Qed.
(* ... and no string whatsoever makes the parser panic (also C14) *)
Theorem C13_parse_total : forall s, dt_parse_rfc3339 s <> Panic.
Proof. intros s. exact (proj1 (rfc_parse_total s)). Qed.

(* WRITE: for every valid DateTime whose local year is 0001..9999 and whose offset is a whole number of minutes, and
   each of the five precisions (0, 2, 3, 6, 9 fraction digits), the output is a grammatical timestamp with in-range
   fields and exactly prec fraction digits that denotes the value's offset and its instant truncated to that precision *)
Theorem C13_format_denotes : forall v prec, Inv_dt v /\ inst_in_range (local_instant v) -> prec_ok prec -> dt_off v mod 60 = 0 ->
  (let '(y, _, _) := days_to_date (local_instant v / D) in 1 <= y <= 9999) ->
  exists out p, dt_format_rfc3339 v prec = Ok out /\ rfc_split out = Some p /\ rfc_in_range p = true /\
    snd (rfc_denote p) = dt_off v /\
    fst (rfc_denote p) = local_instant v / 10 ^ (9 - prec) * 10 ^ (9 - prec) - dt_off v * NANOS_PER_SEC /\
    Z.of_nat (length (r_frac p)) = prec.
Proof. exact rfc_format_denotes. Qed.
(* READ after WRITE *)
Theorem C13_roundtrip : forall v prec, Inv_dt v /\ inst_in_range (local_instant v) -> prec_ok prec -> dt_off v mod 60 = 0 ->
  (let '(y, _, _) := days_to_date (local_instant v / D) in 1 <= y <= 9999) ->
  exists out v', dt_format_rfc3339 v prec = Ok out /\ dt_parse_rfc3339 out = Ok v' /\ dt_off v' = dt_off v /\
    instant v' = local_instant v / 10 ^ (9 - prec) * 10 ^ (9 - prec) - dt_off v * NANOS_PER_SEC /\
    (Inv_dt v' /\ inst_in_range (local_instant v')).
Proof. exact rfc_roundtrip. Qed.

(* non-vacuity: "2022-05-02T15:30:20.1234567891+01:00" (ten fraction digits) is grammatical and in range; "…T24:00:00Z" and
   "0000-01-01T00:00:00Z" are grammatical and out of range; a value meeting the write-side hypotheses *)
Definition t_ (l : list nat) : text := map Z.of_nat l.
Example C13_nonvacuous :
  (exists p, rfc_split (t_ [50;48;50;50;45;48;53;45;48;50;84;49;53;58;51;48;58;50;48;46;49;50;51;52;53;54;55;56;57;49;43;48;49;58;48;48]%nat) = Some p
             /\ rfc_in_range p = true /\ rfc_denote p = (63787098620123456789, 3600)) /\
  (exists p, rfc_split (t_ [50;48;50;50;45;48;53;45;48;50;84;50;52;58;48;48;58;48;48;90]%nat) = Some p /\ rfc_in_range p = false) /\
  (exists p, rfc_split (t_ [48;48;48;48;45;48;49;45;48;49;84;48;48;58;48;48;58;48;48;90]%nat) = Some p /\ rfc_in_range p = false) /\
  (let v := mkDT 738276 52220123456789 (-1800) in
   (Inv_dt v /\ inst_in_range (local_instant v)) /\ dt_off v mod 60 = 0 /\ days_to_date (local_instant v / D) = (2022, 5, 2)).
Proof.
  split; [eexists; split; [vm_compute; reflexivity | split; vm_compute; reflexivity]|].
  split; [eexists; split; vm_compute; reflexivity|]. split; [eexists; split; vm_compute; reflexivity|].
  cbv zeta. split; [|split; vm_compute; reflexivity].
  unfold Inv_dt, inst_in_range, local_instant, instant, MIN_I, MAX_I, in_i32, off_ok. cbn [dt_days dt_nanos dt_off].
  unfold NANOS_PER_DAY, NANOS_PER_SEC, SECS_PER_DAY, I32_MIN, I32_MAX. lia.
Qed.

Print Assumptions C13_parse_accepts.
Print Assumptions C13_parse_rejects.
Print Assumptions C13_parse_total.
Print Assumptions C13_format_denotes.
Print Assumptions C13_roundtrip.
