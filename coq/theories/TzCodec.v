(* TzCodec.v — C18, byte level: the TZif reader decodes what an encoder of the RFC 8536 layout writes
   (version 2/3 files: an empty version-1 block, the 64-bit block, the footer). *)
From Astro Require Import Base Text DateModel TimeModel ApiModel TzModel.

(* ---------- big-endian integers ---------- *)
Fixpoint be_enc (k : nat) (n : Z) : bytes := match k with O => [] | S j => be_enc j (n / 256) ++ [n mod 256] end.
Lemma be_enc_length k : forall n, length (be_enc k n) = k.
Proof. induction k as [|k IH]; intros n; cbn [be_enc]; [reflexivity|]. rewrite app_length, IH. cbn [length]. lia. Qed.
Lemma be_unsigned_app a : forall b acc, be_unsigned (a ++ b) acc = be_unsigned b (be_unsigned a acc).
Proof. induction a as [|x a IH]; intros b acc; cbn [app be_unsigned]; [reflexivity | apply IH]. Qed.
Lemma be_dec_enc k : forall n, 0 <= n < 256 ^ Z.of_nat k -> be_unsigned (be_enc k n) 0 = n.
Proof.
  induction k as [|k IH]; intros n Hn.
  - cbn in *. lia.
  - cbn [be_enc]. rewrite be_unsigned_app. cbn [be_unsigned]. rewrite Nat2Z.inj_succ, Z.pow_succ_r in Hn by lia.
    rewrite IH by (split; [apply Z.div_pos; lia | apply Z.div_lt_upper_bound; lia]). pose proof (Z.div_mod n 256 ltac:(lia)). lia.
Qed.
Definition enc_i64 (t : Z) : bytes := be_enc 8 (t mod 18446744073709551616).
Definition enc_i32 (t : Z) : bytes := be_enc 4 (t mod 4294967296).
Lemma dec_i64 t : in_i64 t -> be_i64 (enc_i64 t) = t.
Proof.
  intros H. unfold in_i64, I64_MIN, I64_MAX in H. unfold be_i64, enc_i64. cbv zeta.
  rewrite be_dec_enc by (change (256 ^ Z.of_nat 8) with 18446744073709551616; apply Z.mod_pos_bound; lia).
  destruct (Z.ltb_spec (t mod 18446744073709551616) 9223372036854775808); lia.
Qed.
Lemma dec_i32 t : in_i32 t -> be_i32 (enc_i32 t) = t.
Proof.
  intros H. unfold in_i32, I32_MIN, I32_MAX in H. unfold be_i32, enc_i32. cbv zeta.
  rewrite be_dec_enc by (change (256 ^ Z.of_nat 4) with 4294967296; apply Z.mod_pos_bound; lia).
  destruct (Z.ltb_spec (t mod 4294967296) 2147483648); lia.
Qed.
Lemma dec_u32 n : 0 <= n < 4294967296 -> be_u32 (be_enc 4 n) = n.
Proof. intros H. unfold be_u32. apply be_dec_enc. change (256 ^ Z.of_nat 4) with 4294967296. exact H. Qed.

(* ---------- the cursor on a concatenation ---------- *)
Lemma read_exact_app a b : read_exact (Z.of_nat (length a)) (a ++ b) = TzOk (a, b).
Proof.
  unfold read_exact. rewrite app_length. destruct (Z.ltb_spec (Z.of_nat (length a + length b)) (Z.of_nat (length a))); [lia|].
  rewrite Nat2Z.id, firstn_app, skipn_app, Nat.sub_diag, firstn_all, skipn_all. cbn [firstn skipn]. rewrite app_nil_r. reflexivity.
Qed.
Lemma read_exact_n n a b : Z.of_nat (length a) = n -> read_exact n (a ++ b) = TzOk (a, b).
Proof. intros <-. apply read_exact_app. Qed.

(* fixed-size records: chunks_exact over a concatenation of k-byte records *)
Lemma chunks_concat k (recs : list bytes) : (0 < k)%nat -> Forall (fun r => length r = k) recs ->
  forall fuel, (length recs <= fuel)%nat -> chunks k (concat recs) fuel = recs.
Proof.
  intros Hk. induction recs as [|r recs IH]; intros Hl fuel Hf.
  - destruct fuel; cbn [concat chunks]; [reflexivity|]. cbn [length]. destruct (Nat.ltb_spec 0 k); [reflexivity | lia].
  - inversion Hl as [|? ? Hr Hl']; subst. destruct fuel as [|fuel]; [cbn in Hf; lia|]. cbn [concat chunks].
    rewrite app_length. destruct (Nat.ltb_spec (length r + length (concat recs)) (length r)); [lia|].
    rewrite firstn_app, skipn_app, Nat.sub_diag, firstn_all, skipn_all. cbn [firstn skipn app]. rewrite app_nil_r.
    f_equal. apply IH; [exact Hl' | cbn [length] in Hf; lia].
Qed.
Lemma concat_length_const k (recs : list bytes) : Forall (fun r => length r = k) recs -> length (concat recs) = (k * length recs)%nat.
Proof. induction 1 as [|r recs Hr Hl IH]; cbn [concat length]; [lia|]. rewrite app_length, IH, Hr. lia. Qed.

(* ---------- header ---------- *)
Definition ver_byte (v : version) : Z := match v with V1 => 0 | V2 => 50 | V3 => 51 end.
Definition enc_header (v : version) (isut isstd leap tcnt ycnt ccnt : Z) : bytes :=
  [84; 90; 105; 102] ++ [ver_byte v] ++ repeat 0 15 ++
  be_enc 4 isut ++ be_enc 4 isstd ++ be_enc 4 leap ++ be_enc 4 tcnt ++ be_enc 4 ycnt ++ be_enc 4 ccnt.
Definition u32ok (n : Z) : Prop := 0 <= n < 4294967296.

Lemma parse_header_enc v isut isstd leap tcnt ycnt ccnt rest :
  u32ok isut -> u32ok isstd -> u32ok leap -> u32ok tcnt -> u32ok ycnt -> u32ok ccnt ->
  parse_header (enc_header v isut isstd leap tcnt ycnt ccnt ++ rest) = TzOk (mkHeader v isut isstd leap tcnt ycnt ccnt, rest).
Proof.
  intros H1 H2 H3 H4 H5 H6. unfold parse_header, enc_header. rewrite <- !app_assoc.
  rewrite (read_exact_n 4 [84; 90; 105; 102]) by reflexivity. cbn [tzbind]. cbn [text_eqb Z.eqb Pos.eqb andb negb].
  rewrite (read_exact_n 1 [ver_byte v]) by reflexivity. cbn [tzbind].
  assert (Ev : (if ver_byte v =? 0 then TzOk V1 else if ver_byte v =? 50 then TzOk V2 else if ver_byte v =? 51 then TzOk V3 else TzErr) = TzOk v) by (destruct v; reflexivity).
  rewrite Ev. cbn [tzbind]. rewrite (read_exact_n 15 (repeat 0 15)) by reflexivity. cbn [tzbind].
  assert (R4 : forall x r, read_exact 4 (be_enc 4 x ++ r) = TzOk (be_enc 4 x, r)) by (intros; apply read_exact_n; rewrite be_enc_length; reflexivity).
  rewrite R4. cbn [tzbind]. rewrite R4. cbn [tzbind]. rewrite R4. cbn [tzbind]. rewrite R4. cbn [tzbind]. rewrite R4. cbn [tzbind].
  assert (E6 : read_exact 4 (be_enc 4 ccnt ++ rest) = TzOk (be_enc 4 ccnt, rest)) by (apply read_exact_n; rewrite be_enc_length; reflexivity).
  rewrite E6. cbn [tzbind]. rewrite !dec_u32 by assumption. reflexivity.
Qed.

(* ---------- the 64-bit data block ---------- *)
Definition enc_ltype (u : Z) : bytes := enc_i32 u ++ [0; 0].      (* utoff, isdst, designation index *)
Definition enc_block64 (trans : list (Z * Z)) (types : list Z) (chars : bytes) : bytes :=
  concat (map (fun tr => enc_i64 (fst tr)) trans) ++ map snd trans ++ concat (map enc_ltype types) ++ chars.

Lemma enc_i64_len t : length (enc_i64 t) = 8%nat. Proof. apply be_enc_length. Qed.
Lemma enc_ltype_len u : length (enc_ltype u) = 6%nat. Proof. unfold enc_ltype, enc_i32. rewrite app_length, be_enc_length. reflexivity. Qed.
Lemma forall_map_len {A} (f : A -> bytes) k l : (forall x, length (f x) = k) -> Forall (fun r => length r = k) (map f l).
Proof. intros H. induction l; cbn [map]; constructor; auto. Qed.

Lemma parse_block_enc v trans types chars rest : v <> V1 ->
  parse_data_block (enc_block64 trans types chars ++ rest)
    (mkHeader v 0 0 0 (Z.of_nat (length trans)) (Z.of_nat (length types)) (Z.of_nat (length chars))) v
  = TzOk (mkBlock 8 (concat (map (fun tr => enc_i64 (fst tr)) trans)) (map snd trans) (concat (map enc_ltype types)), rest).
Proof.
  intros Hv. unfold parse_data_block, enc_block64. cbn [h_trans h_types h_chars h_leap h_isstd h_isut].
  assert (Ets : (match v with V1 => 4 | _ => 8 end) = 8) by (destruct v; [contradiction | reflexivity | reflexivity]). rewrite Ets.
  rewrite <- !app_assoc.
  rewrite (read_exact_n (Z.of_nat (length trans) * 8)).
  2:{ rewrite (concat_length_const 8) by (apply forall_map_len; intros; apply enc_i64_len). rewrite map_length. lia. }
  cbn [tzbind]. rewrite (read_exact_n (Z.of_nat (length trans))) by (rewrite map_length; reflexivity). cbn [tzbind].
  rewrite (read_exact_n (Z.of_nat (length types) * 6)).
  2:{ rewrite (concat_length_const 6) by (apply forall_map_len; intros; apply enc_ltype_len). rewrite map_length. lia. }
  cbn [tzbind]. rewrite (read_exact_n (Z.of_nat (length chars)) chars rest) by reflexivity. cbn [tzbind].
  change (0 * (8 + 4)) with 0.
  assert (R0 : forall r, read_exact 0 r = TzOk ([], r)).
  { intros r. unfold read_exact. destruct (Z.ltb_spec (Z.of_nat (length r)) 0); [lia|]. reflexivity. }
  rewrite R0. cbn [tzbind]. rewrite R0. cbn [tzbind]. rewrite R0. cbn [tzbind]. reflexivity.
Qed.

Lemma zip_fst_snd {A B} (l : list (A * B)) : zip (map fst l) (map snd l) = l.
Proof. induction l as [|[a b] l IH]; cbn [map zip fst snd]; [reflexivity|]. rewrite IH. reflexivity. Qed.

(* ---------- a whole version 2 / version 3 file ---------- *)
Definition enc_file (v : version) (trans : list (Z * Z)) (types : list Z) (chars footer : bytes) : bytes :=
  enc_header v 0 0 0 0 0 0 ++
  enc_header v 0 0 0 (Z.of_nat (length trans)) (Z.of_nat (length types)) (Z.of_nat (length chars)) ++
  enc_block64 trans types chars ++ footer.

Lemma from_tzif_encoded_aux v trans types chars footer : (v = V2 \/ v = V3) ->
  Forall (fun tr => in_i64 (fst tr)) trans -> Forall in_i32 types ->
  u32ok (Z.of_nat (length trans)) -> u32ok (Z.of_nat (length types)) -> u32ok (Z.of_nat (length chars)) ->
  from_tzif (enc_file v trans types chars footer) =
  (let! rule := from_tz_string footer (match v with V3 => true | _ => false end) in
   if existsb (fun tr => Z.of_nat (length types) <=? snd tr) trans
      || ((match types with [] => true | _ => false end) && (match rule with None => true | _ => false end))
   then TzErr else TzOk (mkTz trans types rule)).
Proof.
  intros Hv Ht Hy U1 U2 U3. unfold from_tzif, enc_file.
  assert (U0 : u32ok 0) by (unfold u32ok; lia).
  assert (Hv1 : v <> V1) by (destruct Hv as [-> | ->]; discriminate).
  assert (R0 : forall r, read_exact 0 r = TzOk ([], r)).
  { intros r. unfold read_exact. destruct (Z.ltb_spec (Z.of_nat (length r)) 0); [lia|]. reflexivity. }
  assert (Et : map be_i64 (chunks (Z.to_nat 8) (concat (map (fun tr => enc_i64 (fst tr)) trans)) (length (concat (map (fun tr => enc_i64 (fst tr)) trans)))) = map fst trans).
  { rewrite chunks_concat; [| cbn; lia | apply forall_map_len; intros; apply enc_i64_len |].
    - rewrite map_map. apply map_ext_in. intros tr Hin. apply dec_i64. rewrite Forall_forall in Ht. apply Ht, Hin.
    - rewrite (concat_length_const 8) by (apply forall_map_len; intros; apply enc_i64_len). rewrite map_length. lia. }
  assert (Ey : map (fun c => be_i32 (firstn 4 c)) (chunks 6 (concat (map enc_ltype types)) (length (concat (map enc_ltype types)))) = types).
  { rewrite chunks_concat; [| lia | apply forall_map_len; intros; apply enc_ltype_len |].
    - rewrite map_map. rewrite <- (map_id types) at 2. apply map_ext_in. intros u Hin. unfold enc_ltype.
      rewrite firstn_app, (firstn_all2 (enc_i32 u)) by (unfold enc_i32; rewrite be_enc_length; lia).
      unfold enc_i32 at 2. rewrite be_enc_length. cbn [Nat.sub firstn]. rewrite app_nil_r. apply dec_i32. rewrite Forall_forall in Hy. apply Hy, Hin.
    - rewrite (concat_length_const 6) by (apply forall_map_len; intros; apply enc_ltype_len). rewrite map_length. lia. }
  pose proof (parse_block_enc v trans types chars footer Hv1) as PB.
  destruct Hv as [-> | ->];
    (rewrite parse_header_enc by assumption; cbn [tzbind h_ver];
     unfold parse_data_block at 1; cbn [h_trans h_types h_chars h_leap h_isstd h_isut]; change (0 * 4) with 0; change (0 * 6) with 0; change (0 * (4 + 4)) with 0;
     do 7 (rewrite R0; cbn [tzbind]);
     rewrite parse_header_enc by assumption; cbn [tzbind h_ver];
     rewrite PB; cbn [tzbind b_time_size b_times b_ttypes b_ltypes h_ver];
     change (fun c : bytes => be_i64 c) with be_i64;
     rewrite Et, zip_fst_snd, Ey; reflexivity).
Qed.

Theorem from_tzif_encoded v trans types chars footer : v <> V1 ->
  Forall (fun tr => in_i64 (fst tr)) trans -> Forall in_i32 types ->
  u32ok (Z.of_nat (length trans)) -> u32ok (Z.of_nat (length types)) -> u32ok (Z.of_nat (length chars)) ->
  from_tzif (enc_file v trans types chars footer) =
  (let! rule := from_tz_string footer (match v with V3 => true | _ => false end) in
   if existsb (fun tr => Z.of_nat (length types) <=? snd tr) trans
      || ((match types with [] => true | _ => false end) && (match rule with None => true | _ => false end))
   then TzErr else TzOk (mkTz trans types rule)).
Proof. intros Hv. apply from_tzif_encoded_aux. destruct v; [contradiction | left | right]; reflexivity. Qed.
