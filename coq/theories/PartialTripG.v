(* PartialTripG.v — C12, partial patterns for the Date and the Time type: PartialTrip.v again, over any assignment `ex` of
   expected fields to items (the three types differ in which symbols they understand), then the two theorems. *)
From Astro Require Import Base Text CalSpec DateModel TimeModel ApiModel InstantSpec FormatModel ParseModel PatternSpec ValueFields
  DateProofs WeekProofs WeekFinal TimeProofs ClockProofs OffsetProofs ErrProofs TextProofs PadProofs PatternProofs FieldProofs RoundTrip PartialTrip.

Section AssemblePG.
  Variables (d n off : Z) (items : list pitem) (ex : pitem -> option (punit * Z)).
  Hypothesis Hd : in_i32 d.
  Hypothesis Hn : 0 <= n < NANOS_PER_DAY.
  Hypothesis Hcanon : forall it, In it items -> ex it = None \/ exists u, ex it = Some (u, canon d n off u).
  Let R := fold_left apply_exp (map ex items) (PD0, PT0).
  Local Notation hs := (has_g items ex).

  (* the date the parser builds: day of year (with its year) wins; otherwise year, month, day with 1 for what is absent *)
  Definition partial_triple_g : Z * Z * Z :=
    let '(y, m, dd) := days_to_date d in ((if hs PYear then y else 1), (if hs PMonth then m else 1), (if hs PDayOfMonth then dd else 1)).
  Definition partial_day_g : Z := if hs PDayOfYear then d else rd partial_triple_g.

  Lemma partial_triple_valid_g : (hs PMonth = true \/ hs PDayOfMonth = true -> hs PYear = true) -> valid partial_triple_g.
  Proof.
    intros HY. unfold partial_triple_g. destruct (days_to_date_rd d) as [V _]. destruct (days_to_date d) as [[y m] dd]. destruct V as (Vy & Vm & Vd).
    assert (Hd31 : dd <= 31) by (pose proof (mlen_bounds y m); lia).
    destruct (hs PYear) eqn:EY.
    - destruct (hs PMonth), (hs PDayOfMonth); unfold valid; repeat split; try lia; try (pose proof (mlen_bounds y m); lia); try (pose proof (mlen_bounds y 1); lia).
      change (mlen y 1) with 31. lia.
    - destruct (hs PMonth); [specialize (HY (or_introl eq_refl)); discriminate|]. destruct (hs PDayOfMonth); [specialize (HY (or_intror eq_refl)); discriminate|].
      unfold valid. repeat split; try lia. change (mlen 1 1) with 31. lia.
  Qed.

  Lemma assemble_date_p_g : (hs PDayOfYear = true -> hs PYear = true) -> (hs PMonth = true \/ hs PDayOfMonth = true -> hs PYear = true) ->
    in_i32 partial_day_g -> date_days_of (fst R) = Ok partial_day_g.
  Proof.
    intros HDY HY Hr. pose proof (partial_triple_valid_g HY) as PV. unfold date_days_of.
    change (pd_doy (fst R)) with (get_slot R PDayOfYear). change (pd_year (fst R)) with (get_slot R PYear).
    change (pd_month (fst R)) with (get_slot R PMonth). change (pd_dom (fst R)) with (get_slot R PDayOfMonth).
    unfold R. rewrite !(slot_Rg d n off items ex Hcanon). unfold partial_day_g, partial_triple_g in *. cbn [norm_slot]. unfold canon.
    pose proof (year_i32 d Hd) as Yi. destruct (days_to_date_rd d) as [V Erd].
    destruct (days_to_date d) as [[y m] dd]. destruct V as (Vy & Vm & Vd).
    assert (Hd31 : dd <= 31) by (pose proof (mlen_bounds y m); lia).
    destruct (hs PDayOfYear) eqn:Hdoy.
    - rewrite (HDY eq_refl). cbn [oz]. rewrite (wrap_i32_id y) by exact Yi.
      pose proof (cum_bounds y m dd Vm Vd) as Cb. unfold rd in Erd. rewrite rd_jan1.
      assert (Hr' : 1 <= 1 + d - ystart (astro y) <= ylen y) by lia.
      rewrite wrap_u32_id by (unfold U32_MAX, ylen in *; destruct (leap y); lia).
      destruct (year_doy_to_days_spec y (1 + d - ystart (astro y)) ltac:(lia)) as [A _]. rewrite A.
      + f_equal. rewrite rd_jan1. lia.
      + split; [exact Vy|]. split; [exact Hr'|]. rewrite rd_jan1. replace (ystart (astro y) + (1 + d - ystart (astro y)) - 1) with d by lia. exact Hd.
    - set (py := if hs PYear then y else 1) in *. set (pm := if hs PMonth then m else 1) in *. set (pdd := if hs PDayOfMonth then dd else 1) in *.
      assert (E1 : oz (if hs PYear then Some (wrap_i32 y) else None) 1 = py) by (subst py; destruct (hs PYear); cbn [oz]; [apply wrap_i32_id; exact Yi | reflexivity]).
      assert (E2 : oz (if hs PMonth then Some (wrap_u32 m) else None) 1 = pm) by (subst pm; destruct (hs PMonth); cbn [oz]; [apply wrap_u32_id; unfold U32_MAX; lia | reflexivity]).
      assert (E3 : oz (if hs PDayOfMonth then Some (wrap_u32 dd) else None) 1 = pdd) by (subst pdd; destruct (hs PDayOfMonth); cbn [oz]; [apply wrap_u32_id; unfold U32_MAX; lia | reflexivity]).
      rewrite E1, E2, E3. apply date_to_days_ok; [exact PV|]. apply in_range_rd; [exact PV | exact Hr].
  Qed.

  (* the time of day the parser builds *)
  Variable sel : option punit.
  Hypothesis Hsel : match sel with Some s => is_sub s = true | None => True end.
  Hypothesis Hsub : forall u, is_sub u = true -> hs u = match sel with Some s => punit_eqb s u | None => false end.
  Definition partial_hour_g : Z :=
    let h := n / NANOS_PER_HOUR in
    if hs PHour then h else (if hs PPeriodHour then h mod 12 else 0) + (if hs PPeriod then (if h <? 12 then 0 else 12) else 0).
  Definition partial_clock_g : Z :=
    partial_hour_g * 3600 * NANOS_PER_SEC + (if hs PMinute then n / NANOS_PER_MINUTE mod 60 else 0) * 60 * NANOS_PER_SEC
    + (if hs PSecond then n / NANOS_PER_SEC mod 60 else 0) * NANOS_PER_SEC
    + (match sel with Some s => n mod NANOS_PER_SEC / sub_scale s * sub_scale s | None => 0 end).

  Lemma partial_hour_bound_g : 0 <= partial_hour_g < 24.
  Proof.
    unfold partial_hour_g. cbv zeta. set (h := n / NANOS_PER_HOUR). assert (Bh : 0 <= h < 24) by (subst h; revert Hn; unfold_consts; intros; lia).
    pose proof (Z.mod_pos_bound h 12 ltac:(lia)). destruct (hs PHour), (hs PPeriodHour), (hs PPeriod), (h <? 12); lia.
  Qed.
  Lemma sub_part_bound_g : 0 <= (match sel with Some s => n mod NANOS_PER_SEC / sub_scale s * sub_scale s | None => 0 end) < 1000000000.
  Proof.
    pose proof (Z.mod_pos_bound n NANOS_PER_SEC ltac:(unfold NANOS_PER_SEC; lia)) as B. unfold NANOS_PER_SEC in *.
    destruct sel as [s0|]; [|lia]. destruct s0; try discriminate Hsel; cbn [sub_scale]; lia.
  Qed.
  Lemma partial_clock_bound_g : 0 <= partial_clock_g < NANOS_PER_DAY.
  Proof.
    unfold partial_clock_g. pose proof partial_hour_bound_g. pose proof sub_part_bound_g.
    assert (0 <= (if hs PMinute then n / NANOS_PER_MINUTE mod 60 else 0) < 60) by (destruct (hs PMinute); lia).
    assert (0 <= (if hs PSecond then n / NANOS_PER_SEC mod 60 else 0) < 60) by (destruct (hs PSecond); lia).
    unfold NANOS_PER_DAY, NANOS_PER_SEC in *. lia.
  Qed.

  Lemma assemble_time_p_g : time_nanos (snd R) = partial_clock_g.
  Proof.
    unfold time_nanos.
    change (pt_hour (snd R)) with (get_slot R PHour). change (pt_phour (snd R)) with (get_slot R PPeriodHour).
    change (pt_period (snd R)) with (get_slot R PPeriod). change (pt_minute (snd R)) with (get_slot R PMinute).
    change (pt_second (snd R)) with (get_slot R PSecond). change (pt_decis (snd R)) with (get_slot R PDecis).
    change (pt_centis (snd R)) with (get_slot R PCentis). change (pt_millis (snd R)) with (get_slot R PMillis).
    change (pt_micros (snd R)) with (get_slot R PMicros). change (pt_nanos (snd R)) with (get_slot R PNanos).
    unfold R. rewrite !(slot_Rg d n off items ex Hcanon).
    rewrite (Hsub PDecis eq_refl), (Hsub PCentis eq_refl), (Hsub PMillis eq_refl), (Hsub PMicros eq_refl), (Hsub PNanos eq_refl).
    cbn [norm_slot]. unfold canon, partial_clock_g, partial_hour_g. destruct (days_to_date d) as [[y m] dd]. cbv zeta.
    set (h := n / NANOS_PER_HOUR). set (mi := n / NANOS_PER_MINUTE mod 60). set (s := n / NANOS_PER_SEC mod 60). set (ss := n mod NANOS_PER_SEC).
    assert (Bh : 0 <= h < 24) by (subst h; revert Hn; unfold_consts; intros; lia).
    assert (Bmi : 0 <= mi < 60) by (subst mi; lia). assert (Bs : 0 <= s < 60) by (subst s; lia).
    assert (Bss : 0 <= ss < 1000000000) by (subst ss; unfold NANOS_PER_SEC; lia).
    assert (W : forall x, 0 <= x < 1000000000 -> wrap_u64 x = x) by (intros; unfold wrap_u64; lia).
    pose proof (Z.mod_pos_bound h 12 ltac:(lia)) as Bh12.
    assert (Hour : (match (if hs PHour then Some (wrap_u64 h) else None) with
                    | Some h0 => h0 * 3600 * NANOS_PER_SEC
                    | None => (oz (if hs PPeriodHour then Some (wrap_u64 (h mod 12)) else None) 0 +
                               oz (if hs PPeriod then Some (if (if h <? 12 then 0 else 1) =? 0 then 0 else 12) else None) 0) * 3600 * NANOS_PER_SEC end)
                   = (if hs PHour then h else (if hs PPeriodHour then h mod 12 else 0) + (if hs PPeriod then (if h <? 12 then 0 else 12) else 0)) * 3600 * NANOS_PER_SEC).
    { destruct (hs PHour); [rewrite W by lia; reflexivity|]. f_equal. f_equal. f_equal.
      - destruct (hs PPeriodHour); cbn [oz]; [apply W; lia | reflexivity].
      - destruct (hs PPeriod); cbn [oz]; [|reflexivity]. destruct (h <? 12); reflexivity. }
    rewrite Hour. clear Hour.
    assert (Emi : oz (if hs PMinute then Some (wrap_u64 mi) else None) 0 = (if hs PMinute then mi else 0)) by (destruct (hs PMinute); cbn [oz]; [apply W; lia | reflexivity]).
    assert (Es : oz (if hs PSecond then Some (wrap_u64 s) else None) 0 = (if hs PSecond then s else 0)) by (destruct (hs PSecond); cbn [oz]; [apply W; lia | reflexivity]).
    rewrite Emi, Es.
    set (HH := if hs PHour then h else (if hs PPeriodHour then h mod 12 else 0) + (if hs PPeriod then if h <? 12 then 0 else 12 else 0)).
    set (MM := if hs PMinute then mi else 0). set (SS := if hs PSecond then s else 0).
    clearbody HH MM SS. clearbody h mi s ss. unfold NANOS_PER_SEC.
    destruct sel as [s0|].
    - assert (Wd : forall k, 0 < k -> wrap_u64 (ss / k) = ss / k).
      { intros k Hk. apply W. split; [apply Z.div_pos; lia|]. apply Z.div_lt_upper_bound; [lia|]. nia. }
      destruct s0; try discriminate Hsel; cbn [punit_eqb oz sub_scale]; rewrite ?Wd by lia; rewrite ?W by lia; lia.
    - cbn [oz]. lia.
  Qed.
End AssemblePG.

Definition partial_off_g (off : Z) (items : list pitem) (ex : pitem -> option (punit * Z)) : Z := if has_g items ex POffset then off else 0.

Lemma understands_cases kind c : understands kind c = true -> is_date_sym c = true \/ is_time_sym c = true.
Proof. unfold understands. destruct kind as [|[p|p|]|p]; cbv beta iota; intros H; [left; exact H | apply orb_true_iff in H; tauto | apply orb_true_iff in H; tauto | right; exact H | apply orb_true_iff in H; tauto]. Qed.
Lemma has_of_field_g kind d n off items ex c w u : (forall c w, understands kind c = true -> ex (PField c w) = item_expected d n off (PField c w)) ->
  In (PField c w) items -> understands kind c = true -> (exists val, item_expected d n off (PField c w) = Some (u, val)) -> has_g items ex u = true.
Proof.
  intros Hex Hin Hu [val E]. unfold has_g. apply existsb_exists. exists (ex (PField c w)). split; [apply in_map; exact Hin|].
  rewrite (Hex c w Hu), E. cbn [sets_unit]. apply punit_eqb_eq. reflexivity.
Qed.
Lemma n_item_has_g kind d n off items ex w : (forall c w, understands kind c = true -> ex (PField c w) = item_expected d n off (PField c w)) ->
  In (PField 110 w) items -> understands kind 110 = true -> has_g items ex (n_unit w) = true.
Proof. intros Hex Hin Hu. apply (has_of_field_g kind d n off items ex 110 w _ Hex Hin Hu). expected_of. Qed.

Section ReformatG.
  Variables (kind d n off : Z) (items : list pitem) (ex : pitem -> option (punit * Z)) (sel : option punit).
  Hypothesis Hd : in_i32 d.
  Hypothesis Hn : 0 <= n < NANOS_PER_DAY.
  Hypothesis Hok : Forall (fun it => item_ok it = true) items.
  Hypothesis Hcanon : forall it, In it items -> ex it = None \/ exists u, ex it = Some (u, canon d n off u).
  Hypothesis Hex : forall c w, understands kind c = true -> ex (PField c w) = item_expected d n off (PField c w).
  Local Notation hs := (has_g items ex).
  Hypothesis Hsel : match sel with Some s => is_sub s = true | None => True end.
  Hypothesis Hsub : forall u, is_sub u = true -> hs u = match sel with Some s => punit_eqb s u | None => false end.
  Hypothesis HYany : hs PMonth = true \/ hs PDayOfMonth = true \/ hs PDayOfYear = true -> hs PYear = true.
  Definition full_date_g : Prop := hs PDayOfYear = true \/ (hs PYear = true /\ hs PMonth = true /\ hs PDayOfMonth = true).
  Definition sym_in_g (c : Z) : Prop := exists w, In (PField c w) items.
  Hypothesis Hderived : forall c, sym_in_g c -> understands kind c = true -> c = 71 \/ c = 113 \/ c = 119 \/ c = 101 -> full_date_g.
  Hypothesis Hb : sym_in_g 98 -> understands kind 98 = true -> (hs PHour = true \/ hs PPeriodHour = true) /\ hs PMinute = true /\ hs PSecond = true.
  Let d' := partial_day_g d items ex.
  Let n' := partial_clock_g n items ex sel.
  Let off' := partial_off_g off items ex.
  Let F := fields_of_day d n off.
  Let F' := fields_of_day d' n' off'.

  Lemma full_same_g : full_date_g -> d' = d.
  Proof.
    intros Hf. unfold d', partial_day_g. destruct (hs PDayOfYear) eqn:E; [reflexivity|].
    destruct Hf as [X | (HY & HM & HD)]; [congruence|]. unfold partial_triple_g. rewrite HY, HM, HD.
    destruct (days_to_date_rd d) as [_ Erd]. destruct (days_to_date d) as [[y m] dd]. exact Erd.
  Qed.
  Lemma part_triple_g : hs PDayOfYear = false -> days_to_date d' = partial_triple_g d items ex.
  Proof.
    intros E. unfold d', partial_day_g. rewrite E. apply dtd_rd. apply partial_triple_valid_g. intros [X | X]; apply HYany; tauto.
  Qed.

  Lemma date_agree_g c w : In (PField c w) items -> understands kind c = true -> is_date_sym c = true -> agree c w F F'.
  Proof.
    intros Hin Hu Hc.
    assert (Cs : c = 71 \/ c = 121 \/ c = 113 \/ c = 77 \/ c = 119 \/ c = 100 \/ c = 68 \/ c = 101).
    { unfold is_date_sym in Hc. cbn [existsb] in Hc. rewrite !orb_true_iff, !Z.eqb_eq in Hc. intuition discriminate. }
    assert (Same : d' = d -> agree c w F F').
    { intros E. unfold F', F. rewrite E. unfold fields_of_day. destruct (days_to_date d) as [[y m] dd].
      destruct Cs as [-> | [-> | [-> | [-> | [-> | [-> | [-> | ->]]]]]]]; cbn [agree]; reflexivity. }
    assert (ED : hs PDayOfYear = true \/ hs PDayOfYear = false) by (destruct (hs PDayOfYear); tauto).
    destruct ED as [ED | ED]; [apply Same, full_same_g; left; exact ED|].
    destruct Cs as [-> | [-> | [-> | [-> | [-> | [-> | [-> | ->]]]]]]].
    - apply Same, full_same_g, (Hderived 71); [exists w; exact Hin | exact Hu | tauto].
    - assert (HY : hs PYear = true) by (apply (has_of_field_g kind d n off items ex 121 w _ Hex); [exact Hin | exact Hu | expected_of]).
      cbn [agree]. unfold F', F, fields_of_day. rewrite (part_triple_g ED). unfold partial_triple_g. rewrite HY. destruct (days_to_date d) as [[y m] dd]. reflexivity.
    - apply Same, full_same_g, (Hderived 113); [exists w; exact Hin | exact Hu | tauto].
    - assert (HM : hs PMonth = true) by (apply (has_of_field_g kind d n off items ex 77 w _ Hex); [exact Hin | exact Hu | expected_of]).
      cbn [agree]. unfold F', F, fields_of_day. rewrite (part_triple_g ED). unfold partial_triple_g. rewrite HM. destruct (days_to_date d) as [[y m] dd]. reflexivity.
    - apply Same, full_same_g, (Hderived 119); [exists w; exact Hin | exact Hu | tauto].
    - assert (HD : hs PDayOfMonth = true) by (apply (has_of_field_g kind d n off items ex 100 w _ Hex); [exact Hin | exact Hu | expected_of]).
      cbn [agree]. unfold F', F, fields_of_day. rewrite (part_triple_g ED). unfold partial_triple_g. rewrite HD. destruct (days_to_date d) as [[y m] dd]. reflexivity.
    - assert (HD : hs PDayOfYear = true) by (apply (has_of_field_g kind d n off items ex 68 w _ Hex); [exact Hin | exact Hu | expected_of]). congruence.
    - apply Same, full_same_g, (Hderived 101); [exists w; exact Hin | exact Hu | tauto].
  Qed.

  Lemma clock_parts_g :
    let h := n / NANOS_PER_HOUR in
    vf_hour F' = partial_hour_g n items ex /\
    vf_minute F' = (if hs PMinute then n / NANOS_PER_MINUTE mod 60 else 0) /\
    vf_second F' = (if hs PSecond then n / NANOS_PER_SEC mod 60 else 0) /\
    vf_subsec F' = (match sel with Some s => n mod NANOS_PER_SEC / sub_scale s * sub_scale s | None => 0 end) /\
    vf_offset F' = off'.
  Proof.
    cbv zeta. unfold F', fields_of_day. destruct (days_to_date d') as [[y m] dd]. cbn [vf_hour vf_minute vf_second vf_subsec vf_offset].
    unfold n', partial_clock_g.
    pose proof (partial_hour_bound_g n items ex Hn) as BH. pose proof (sub_part_bound_g n items ex sel Hsel Hsub) as BX.
    assert (BM : 0 <= (if hs PMinute then n / NANOS_PER_MINUTE mod 60 else 0) < 60) by (destruct (hs PMinute); lia).
    assert (BS : 0 <= (if hs PSecond then n / NANOS_PER_SEC mod 60 else 0) < 60) by (destruct (hs PSecond); lia).
    destruct (clock_decomp _ _ _ _ BH BM BS BX) as (A & B & C & E). repeat split; assumption.
  Qed.

  Lemma time_agree_g c w : In (PField c w) items -> understands kind c = true -> is_time_sym c = true -> agree c w F F'.
  Proof.
    intros Hin Hu Hc.
    assert (Cs : c = 97 \/ c = 98 \/ c = 104 \/ c = 72 \/ c = 75 \/ c = 107 \/ c = 109 \/ c = 115 \/ c = 110 \/ c = 88 \/ c = 120).
    { unfold is_time_sym in Hc. cbn [existsb] in Hc. rewrite !orb_true_iff, !Z.eqb_eq in Hc. intuition discriminate. }
    destruct clock_parts_g as (EH & EM & ES & EX & EO). cbv zeta in EH.
    assert (FH : vf_hour F = n / NANOS_PER_HOUR /\ vf_minute F = n / NANOS_PER_MINUTE mod 60 /\ vf_second F = n / NANOS_PER_SEC mod 60 /\
                 vf_subsec F = n mod NANOS_PER_SEC /\ vf_offset F = off).
    { unfold F, fields_of_day. destruct (days_to_date d) as [[y m] dd]. cbn. repeat split; reflexivity. }
    destruct FH as (GH & GM & GS & GX & GO).
    set (h := n / NANOS_PER_HOUR) in *. assert (Bh : 0 <= h < 24) by (subst h; revert Hn; unfold_consts; intros; lia).
    pose proof (Z.mod_pos_bound h 12 ltac:(lia)) as Bh12.
    unfold partial_hour_g in EH. cbv zeta in EH. fold h in EH.
    destruct Cs as [-> | [-> | [-> | [-> | [-> | [-> | [-> | [-> | [-> | [-> | ->]]]]]]]]]]; cbn [agree].
    - (* a *) assert (HP : hs PPeriod = true) by (apply (has_of_field_g kind d n off items ex 97 w _ Hex); [exact Hin | exact Hu | expected_of]).
      rewrite EH, GH, HP. destruct (hs PHour); [reflexivity|]. destruct (hs PPeriodHour), (Z.ltb_spec h 12); lia.
    - (* b *) assert (HP : hs PPeriod = true) by (apply (has_of_field_g kind d n off items ex 98 w _ Hex); [exact Hin | exact Hu | expected_of]).
      destruct (Hb (ex_intro _ w Hin) Hu) as (HH & HM & HS). rewrite EH, EM, ES, GH, GM, GS, HM, HS, HP. repeat split.
      destruct (hs PHour); [reflexivity|]. destruct HH as [X | X]; [discriminate|]. rewrite X. destruct (Z.ltb_spec h 12); lia.
    - (* h *) assert (HP : hs PPeriodHour = true) by (apply (has_of_field_g kind d n off items ex 104 w _ Hex); [exact Hin | exact Hu | expected_of]).
      rewrite EH, GH, HP. destruct (hs PHour); [reflexivity|]. destruct (hs PPeriod), (Z.ltb_spec h 12); lia.
    - (* H *) assert (HP : hs PHour = true) by (apply (has_of_field_g kind d n off items ex 72 w _ Hex); [exact Hin | exact Hu | expected_of]). rewrite EH, GH, HP. reflexivity.
    - (* K *) assert (HP : hs PPeriodHour = true) by (apply (has_of_field_g kind d n off items ex 75 w _ Hex); [exact Hin | exact Hu | expected_of]).
      rewrite EH, GH, HP. destruct (hs PHour); [reflexivity|]. destruct (hs PPeriod), (Z.ltb_spec h 12); lia.
    - (* k *) assert (HP : hs PHour = true) by (apply (has_of_field_g kind d n off items ex 107 w _ Hex); [exact Hin | exact Hu | expected_of]). rewrite EH, GH, HP. reflexivity.
    - (* m *) assert (HP : hs PMinute = true) by (apply (has_of_field_g kind d n off items ex 109 w _ Hex); [exact Hin | exact Hu | expected_of]). rewrite EM, GM, HP. reflexivity.
    - (* s *) assert (HP : hs PSecond = true) by (apply (has_of_field_g kind d n off items ex 115 w _ Hex); [exact Hin | exact Hu | expected_of]). rewrite ES, GS, HP. reflexivity.
    - (* n *) pose proof (n_item_has_g kind d n off items ex w Hex Hin Hu) as Hh'.
      rewrite Forall_forall in Hok. pose proof (Hok _ Hin) as Hi. cbn [item_ok] in Hi. apply andb_true_iff in Hi as [Hw _]. apply Z.leb_le in Hw.
      destruct (n_unit_scale w Hw) as [Esc Hsb]. rewrite (Hsub _ Hsb) in Hh'. destruct sel as [s0|]; [|discriminate]. apply punit_eqb_eq in Hh'. subst s0.
      rewrite EX, GX, <- Esc. apply Z.div_mul. destruct (n_unit w); cbn [sub_scale]; lia.
    - (* X *) assert (HP : hs POffset = true) by (apply (has_of_field_g kind d n off items ex 88 w _ Hex); [exact Hin | exact Hu | expected_of]).
      rewrite EO, GO. unfold off', partial_off_g. rewrite HP. reflexivity.
    - (* x *) assert (HP : hs POffset = true) by (apply (has_of_field_g kind d n off items ex 120 w _ Hex); [exact Hin | exact Hu | expected_of]).
      rewrite EO, GO. unfold off', partial_off_g. rewrite HP. reflexivity.
  Qed.

  Lemma render_partial_same_g : render kind F' items = render kind F items.
  Proof.
    apply render_agree; [exact Hok|]. intros c w Hin U. destruct (understands_cases kind c U) as [X | X]; [apply date_agree_g | apply time_agree_g]; assumption.
  Qed.
End ReformatG.
