(* PadProofs.v — what zero_padded / u_to_string produce: the k-digit decimal expansion (used by C11, C12, C13, C20). *)
From Astro Require Import Base Text FormatModel.

(* the k-digit, zero-padded decimal expansion of n (most significant digit first) *)
Fixpoint dec (k : nat) (n : Z) : text := match k with O => [] | S j => dec j (n / 10) ++ [48 + n mod 10] end.

Lemma zeros_snoc k : zeros k ++ [48] = 48 :: zeros k.
Proof. induction k as [|k IH]; cbn [zeros app]; [reflexivity|]. rewrite IH. reflexivity. Qed.
Lemma dec_zero k : dec k 0 = zeros k.
Proof.
  induction k as [|k IH]; cbn [dec zeros]; [reflexivity|]. change (0 / 10) with 0. change (0 mod 10) with 0. rewrite IH.
  change (48 + 0) with 48. apply zeros_snoc.
Qed.
Lemma dec_length k : forall n, length (dec k n) = k.
Proof. induction k as [|k IH]; intros n; cbn [dec]; [reflexivity|]. rewrite app_length, IH. cbn [length]. lia. Qed.
Lemma all_digits_app a b : all_digits (a ++ b) = all_digits a && all_digits b.
Proof. unfold all_digits. apply forallb_app. Qed.
Lemma dec_digits k : forall n, all_digits (dec k n) = true.
Proof.
  induction k as [|k IH]; intros n; cbn [dec]; [reflexivity|]. rewrite all_digits_app, IH. cbn [all_digits forallb andb].
  unfold is_ascii_digit. pose proof (Z.mod_pos_bound n 10 ltac:(lia)).
  destruct (Z.leb_spec 48 (48 + n mod 10)); [|lia]. destruct (Z.leb_spec (48 + n mod 10) 57); [reflexivity | lia].
Qed.
Lemma digits_val_aux_app a : forall b acc, digits_val_aux (a ++ b) acc = digits_val_aux b (digits_val_aux a acc).
Proof. induction a as [|c a IH]; intros b acc; cbn [app digits_val_aux]; [reflexivity | apply IH]. Qed.
Lemma dec_val k : forall n, 0 <= n < 10 ^ Z.of_nat k -> digits_val (dec k n) = n.
Proof.
  unfold digits_val. induction k as [|k IH]; intros n Hn.
  - cbn in *. lia.
  - cbn [dec]. rewrite digits_val_aux_app. cbn [digits_val_aux]. rewrite Nat2Z.inj_succ, Z.pow_succ_r in Hn by lia.
    rewrite IH by (split; [apply Z.div_pos; lia | apply Z.div_lt_upper_bound; lia]).
    pose proof (Z.div_mod n 10 ltac:(lia)). lia.
Qed.

Lemma digits_rev_dec : forall k fuel n, (1 <= k)%nat -> (k <= fuel)%nat -> 0 <= n < 10 ^ Z.of_nat k ->
  zeros (k - length (digits_rev fuel n)) ++ rev (digits_rev fuel n) = dec k n.
Proof.
  induction k as [|k IH]; intros fuel n Hk Hf Hn; [lia|]. destruct fuel as [|f]; [lia|]. cbn [digits_rev].
  destruct (Z.ltb_spec n 10) as [Hlt|Hge].
  - cbn [length rev app dec]. rewrite Z.div_small, Z.mod_small by lia. rewrite dec_zero. replace (S k - 1)%nat with k by lia. reflexivity.
  - destruct k as [|k']; [cbn in Hn; lia|]. cbn [length rev dec]. rewrite Nat2Z.inj_succ, Z.pow_succ_r in Hn by lia.
    change (S (S k') - S (length (digits_rev f (n / 10))))%nat with (S k' - length (digits_rev f (n / 10)))%nat.
    rewrite app_assoc. rewrite IH; [reflexivity | lia | lia |].
    split; [apply Z.div_pos; lia | apply Z.div_lt_upper_bound; lia].
Qed.

Theorem zero_padded_dec n k : (1 <= k <= 40)%nat -> 0 <= n < 10 ^ Z.of_nat k -> zero_padded n (Z.of_nat k) = dec k n.
Proof.
  intros Hk Hn. unfold zero_padded, u_to_string. cbv zeta. rewrite rev_length, Nat2Z.id. apply digits_rev_dec; lia.
Qed.
Lemma zero_padded_2 n : 0 <= n < 100 -> zero_padded n 2 = [48 + n / 10; 48 + n mod 10].
Proof.
  intros H. change 2 with (Z.of_nat 2). rewrite (zero_padded_dec n 2) by (change (10 ^ Z.of_nat 2) with 100; lia). cbn [dec app].
  rewrite (Z.mod_small (n / 10)) by (split; [apply Z.div_pos; lia | apply Z.div_lt_upper_bound; lia]). reflexivity.
Qed.
Lemma zero_padded_4 n : 0 <= n < 10000 ->
  zero_padded n 4 = [48 + n / 1000; 48 + (n / 100) mod 10; 48 + (n / 10) mod 10; 48 + n mod 10].
Proof.
  intros H. change 4 with (Z.of_nat 4). rewrite (zero_padded_dec n 4) by (change (10 ^ Z.of_nat 4) with 10000; lia). cbn [dec app].
  rewrite !Z.div_div by lia. change (10 * 10) with 100. change (100 * 10) with 1000.
  rewrite (Z.mod_small (n / 1000)) by (split; [apply Z.div_pos; lia | apply Z.div_lt_upper_bound; lia]). reflexivity.
Qed.
