(* PartialTypes.v — C12 for the Date and the Time type with partial patterns. *)
From Astro Require Import Base Text CalSpec DateModel TimeModel ApiModel InstantSpec FormatModel ParseModel PatternSpec ValueFields
  DateProofs WeekProofs WeekFinal TimeProofs ClockProofs OffsetProofs ErrProofs TextProofs PadProofs PatternProofs FieldProofs RoundTrip PartialTrip PartialTripG.

(* Date understands the date symbols only: no time unit is ever set; Time: no date unit *)
Lemma date_only d items u : is_date_unit u = false -> has_g items (item_expected_k 0 d 0 0) u = false.
Proof.
  intros Hu. unfold has_g. induction items as [|it tl IH]; [reflexivity|]. cbn [map existsb]. rewrite IH, orb_false_r.
  destruct it as [c w | c k | txt | k]; try reflexivity. cbn [item_expected_k understands].
  destruct (is_date_sym c); [|reflexivity]. unfold expected_date. destruct (days_to_date d) as [[y m] dd].
  destruct (c =? 121); [destruct u; try discriminate Hu; reflexivity|]. destruct (c =? 77); [destruct u; try discriminate Hu; reflexivity|].
  destruct (c =? 100); [destruct u; try discriminate Hu; reflexivity|]. destruct (c =? 68); [destruct u; try discriminate Hu; reflexivity | reflexivity].
Qed.
Lemma n_unit_cases w : n_unit w = PDecis \/ n_unit w = PCentis \/ n_unit w = PMillis \/ n_unit w = PMicros \/ n_unit w = PNanos.
Proof. unfold n_unit. destruct w as [|p|p]; try tauto. do 3 (try destruct p as [p|p|]); tauto. Qed.
Lemma time_only n off items u : is_date_unit u = true -> has_g items (item_expected_k 1 0 n off) u = false.
Proof.
  intros Hu. unfold has_g. induction items as [|it tl IH]; [reflexivity|]. cbn [map existsb]. rewrite IH, orb_false_r.
  destruct it as [c w | c k | txt | k]; try reflexivity. cbn [item_expected_k understands].
  destruct (is_time_sym c) eqn:Et; [|reflexivity].
  assert (Ed : is_date_sym c = false).
  { unfold is_time_sym in Et. cbn [existsb] in Et. rewrite !orb_true_iff, !Z.eqb_eq in Et. unfold is_date_sym. cbn [existsb].
    repeat (destruct Et as [-> | Et]; [reflexivity|]). discriminate Et. }
  rewrite Ed. unfold expected_time. cbv zeta.
  destruct u; try discriminate Hu;
    repeat match goal with |- sets_unit _ (if ?b then _ else _) = false => destruct b; [try reflexivity; destruct (n_unit_cases w) as [-> | [-> | [-> | [-> | ->]]]]; reflexivity|] end; reflexivity.
Qed.

Lemma ex_k_agrees kind d n off c w : understands kind c = true -> item_expected_k kind d n off (PField c w) = item_expected d n off (PField c w).
Proof.
  intros Hu. cbn [item_expected_k item_expected]. rewrite Hu. destruct (is_date_sym c) eqn:Ed; [reflexivity|].
  destruct (understands_cases kind c Hu) as [X | X]; [congruence|]. rewrite X. reflexivity.
Qed.

(* ================= Date ================= *)
Theorem date_roundtrip_partial now d items : in_i32 d -> swf None items = true ->
  fits_chain_k 0 d 0 (fields_of_day d 0 0) items [] ->
  let ex := item_expected_k 0 d 0 0 in let hs := has_g items ex in
  (hs PMonth = true \/ hs PDayOfMonth = true \/ hs PDayOfYear = true -> hs PYear = true) ->
  (forall c, sym_in_g items c -> is_date_sym c = true -> c = 71 \/ c = 113 \/ c = 119 \/ c = 101 -> full_date_g items ex) ->
  let d' := partial_day_g d items ex in in_i32 d' ->
  exists txt, date_format d (unparse items) = Ok txt /\ date_parse now txt (unparse items) = Ok d' /\ date_format d' (unparse items) = Ok txt.
Proof.
  intros Hd Hswf Hfit ex hs HYany Hder d' Hd'. pose proof (swf_items_ok items None Hswf) as Hok.
  exists (render 0 (fields_of_day d 0 0) items). split; [apply date_format_items; exact Hswf|].
  set (F := fields_of_day d 0 0) in *.
  assert (Ad : date_fields_agree F d) by apply fields_date_agree.
  assert (H00 : 0 <= 0 < NANOS_PER_DAY) by (unfold NANOS_PER_DAY; lia).
  assert (At : time_fields_agree F 0 0) by (apply fields_time_agree; exact H00).
  assert (Hc : forall it, In it items -> ex it = None \/ exists u, ex it = Some (u, canon d 0 0 u)).
  { intros it Hin. apply expected_canon_k. rewrite Forall_forall in Hok. apply Hok, Hin. }
  split.
  - unfold date_parse. rewrite (tokenizer_items items Hswf). rewrite <- (app_nil_r (render 0 F items)).
    pose proof (loop_back_k 0 now F d 0 0 ltac:(left; reflexivity) Hd H00 off_ok_0 Ad At items (PD0, PT0) [] Hok Hfit) as LB.
    cbn [fst snd pp_of] in LB. rewrite LB. clear LB. cbn [bind].
    assert (HDY : hs PDayOfYear = true -> hs PYear = true) by (intros X; apply HYany; tauto).
    assert (HY : hs PMonth = true \/ hs PDayOfMonth = true -> hs PYear = true) by (intros X; apply HYany; tauto).
    pose proof (assemble_date_p_g d 0 0 items ex Hd Hc HDY HY Hd') as AD. unfold ex in AD.
    destruct (fold_left apply_exp (map (item_expected_k 0 d 0 0) items) (PD0, PT0)) as [pd pt]. cbn [fst] in AD. exact AD.
  - rewrite (date_format_items d' items Hswf). f_equal.
    assert (Hsub : forall u, is_sub u = true -> has_g items ex u = match (None : option punit) with Some s => punit_eqb s u | None => false end).
    { intros u Hu. apply date_only. destruct u; try discriminate Hu; reflexivity. }
    pose proof (render_partial_same_g 0 d 0 0 items ex None H00 Hok (fun c w => ex_k_agrees 0 d 0 0 c w) I Hsub HYany) as RS.
    assert (C0 : partial_clock_g 0 items ex None = 0).
    { unfold partial_clock_g, partial_hour_g, ex. cbv zeta. rewrite !date_only by reflexivity. reflexivity. }
    assert (O0 : partial_off_g 0 items ex = 0) by (unfold partial_off_g; destruct (has_g items ex POffset); reflexivity).
    rewrite C0, O0 in RS. apply RS.
    + intros c Hc0 Hu Hx. apply (Hder c Hc0 Hu Hx).
    + intros _ Hu. discriminate Hu.
Qed.

(* ================= Time ================= *)
Theorem time_roundtrip_partial t items sel : Inv_tm t -> swf None items = true ->
  let off := tm_off t in let ln := (tm_nanos t + off * NANOS_PER_SEC) mod NANOS_PER_DAY in
  fits_chain_k 1 0 off (fields_of_day 0 ln off) items [] ->
  let ex := item_expected_k 1 0 ln off in let hs := has_g items ex in
  (sym_in_g items 98 -> (hs PHour = true \/ hs PPeriodHour = true) /\ hs PMinute = true /\ hs PSecond = true) ->
  match sel with Some s => is_sub s = true | None => True end ->
  (forall u, is_sub u = true -> hs u = match sel with Some s => punit_eqb s u | None => false end) ->
  let n' := partial_clock_g ln items ex sel in let off' := partial_off_g off items ex in
  exists txt t', time_format t (unparse items) = Ok txt /\ time_parse txt (unparse items) = Ok t' /\
    tm_off t' = off' /\ (tm_nanos t' + off' * NANOS_PER_SEC) mod NANOS_PER_DAY = n' /\ Inv_tm t' /\
    time_format t' (unparse items) = Ok txt.
Proof.
  intros Ht Hswf. cbv zeta. set (off := tm_off t). set (ln := (tm_nanos t + off * NANOS_PER_SEC) mod NANOS_PER_DAY).
  intros Hfit Hb Hsel Hsub. destruct Ht as [Hn0 Ho]. fold off in Ho.
  pose proof (swf_items_ok items None Hswf) as Hok.
  assert (Hln : 0 <= ln < NANOS_PER_DAY) by (subst ln; apply Z.mod_pos_bound; unfold NANOS_PER_DAY; lia).
  set (F := fields_of_day 0 ln off) in *.
  assert (Ad : date_fields_agree F 0) by apply fields_date_agree. assert (At : time_fields_agree F ln off) by (apply fields_time_agree; exact Hln).
  assert (H0 : in_i32 0) by (unfold in_i32, I32_MIN, I32_MAX; lia).
  exists (render 1 F items). rewrite (time_format_items t items (conj Hn0 Ho) Hswf). fold off ln F.
  set (ex := item_expected_k 1 0 ln off) in *.
  assert (Hc : forall it, In it items -> ex it = None \/ exists u, ex it = Some (u, canon 0 ln off u)).
  { intros it Hin. apply expected_canon_k. rewrite Forall_forall in Hok. apply Hok, Hin. }
  pose proof (assemble_time_p_g 0 ln off items ex Hln Hc sel Hsel Hsub) as AT.
  pose proof (partial_clock_bound_g ln items ex Hln sel Hsel Hsub) as Bn.
  pose proof (slot_Rg 0 ln off items ex Hc POffset) as SO. cbn [norm_slot] in SO.
  assert (Ec : canon 0 ln off POffset = off) by (unfold canon; destruct (days_to_date 0) as [[? ?] ?]; reflexivity). rewrite Ec in SO.
  assert (Ew : wrap_i32 off = off) by (unfold off_ok, SECS_PER_DAY in Ho; unfold wrap_i32; lia). rewrite Ew in SO.
  assert (LB : parse_loop parse_time_part (map part_of items) (render 1 F items) PD0 PT0 = Ok (fold_left apply_exp (map ex items) (PD0, PT0))).
  { pose proof (loop_back_k 1 0 F 0 ln off ltac:(right; reflexivity) H0 Hln Ho Ad At items (PD0, PT0) [] Hok Hfit) as LB.
    cbn [fst snd pp_of] in LB. rewrite app_nil_r in LB. exact LB. }
  (* re-rendering: the fields of the value read back *)
  assert (HYany : has_g items ex PMonth = true \/ has_g items ex PDayOfMonth = true \/ has_g items ex PDayOfYear = true -> has_g items ex PYear = true).
  { unfold ex. intros [X | [X | X]]; rewrite time_only in X by reflexivity; discriminate X. }
  assert (D0 : partial_day_g 0 items ex = 0).
  { unfold partial_day_g, partial_triple_g, ex. rewrite !time_only by reflexivity. reflexivity. }
  pose proof (render_partial_same_g 1 0 ln off items ex sel Hln Hok (fun c w => ex_k_agrees 1 0 ln off c w) Hsel Hsub HYany) as RS.
  rewrite D0 in RS.
  assert (RS' : render 1 (fields_of_day 0 (partial_clock_g ln items ex sel) (partial_off_g off items ex)) items = render 1 F items).
  { apply RS.
    - intros c Hc0 Hu Hx. exfalso. destruct Hx as [-> | [-> | [-> | ->]]]; discriminate Hu.
    - intros Hc0 _. apply Hb, Hc0. }
  clear RS.
  unfold time_parse. rewrite (tokenizer_items items Hswf), LB. cbn [bind].
  destruct (fold_left apply_exp (map ex items) (PD0, PT0)) as [pd pt]. cbn [fst snd get_slot] in AT, SO.
  cbv beta iota. rewrite AT. set (n' := partial_clock_g ln items ex sel) in *.
  unfold time_from_nanos. destruct (Z.leb_spec NANOS_PER_DAY n'); [lia|]. cbn [bind]. rewrite SO.
  unfold partial_off_g in *. destruct (has_g items ex POffset).
  - destruct (c10_offset_from_seconds off) as [Oa _]. rewrite (Oa Ho). cbn [bind].
    destruct (c10_time_as_offset (mkTM n' 0) off) as (t' & E & En & Eo & El); [unfold in_day, D; cbn [tm_nanos]; lia | exact Ho|].
    rewrite E. cbn [tm_nanos] in En, El. unfold D in *.
    assert (It' : Inv_tm t').
    { split; [rewrite En; apply Z.mod_pos_bound; unfold NANOS_PER_DAY; lia | rewrite Eo; exact Ho]. }
    eexists. split; [reflexivity|]. split; [reflexivity|]. split; [exact Eo|]. split; [exact El|]. split; [exact It'|].
    rewrite (time_format_items t' items It' Hswf). rewrite Eo, El. f_equal. exact RS'.
  - assert (It' : Inv_tm (mkTM n' 0)) by (split; cbn [tm_nanos tm_off]; [exact Bn | apply off_ok_0]).
    assert (El : (n' + 0 * NANOS_PER_SEC) mod NANOS_PER_DAY = n') by (unfold NANOS_PER_DAY in *; lia).
    eexists. split; [reflexivity|]. split; [reflexivity|]. cbn [tm_off tm_nanos]. split; [reflexivity|]. split; [exact El|]. split; [exact It'|].
    rewrite (time_format_items (mkTM n' 0) items It' Hswf). cbn [tm_off tm_nanos]. rewrite El. f_equal. exact RS'.
Qed.
