(* CasesText.v — correspondence and specification oracles for C11, C12, C13, C14 and C20. *)
From Astro Require Import Base Text CalSpec DateModel TimeModel ApiModel InstantSpec CronModel FormatModel ParseModel PatternSpec RfcSpec
  Cases DateProofs WeekProofs ValueFields.
From Astro Require CasesArith.

Definition obs_text (r : res text) : obs := match r with Ok s => OOk [] [s] | Err _ => OErr 2 [] | Panic => OPanic end.
Definition obs_date (r : res Z) : obs := obs_of (fun d => OOk [d] []) r.
Definition obs_tm (r : res TM) : obs := obs_of (fun x => OOk [tm_nanos x; tm_off x] []) r.
Definition obs_dt (r : res DT) : obs := obs_of (fun v => OOk [dt_days v; dt_nanos v; dt_off v] []) r.

Definition nvals (kind : Z) : nat := match kind with 0 => 1%nat | 1 => 2%nat | _ => 3%nat end.

(* items sent by the harness: [n; (k, a, b) * n]; quoted texts are strs[1 + a] *)
Fixpoint dec_items (n : nat) (l : list Z) (strs : list text) : option (list pitem) :=
  match n, l with
  | O, _ => Some []
  | S k, kd :: a :: b :: tl =>
      match dec_items k tl strs with
      | Some rest =>
          match kd with
          | 0 => Some (PField a b :: rest)
          | 1 => Some (PLit a b :: rest)
          | 2 => match nth_error strs (Z.to_nat a) with Some t => Some (PQuoted t :: rest) | None => None end
          | _ => Some (PApos a :: rest)
          end
      | None => None end
  | _, _ => None
  end.

Definition model_fmt (kind : Z) (val : list Z) (pat : text) : obs :=
  match kind, val with
  | 0, [d] => obs_text (date_format d pat)
  | 1, [n; o] => obs_text (time_format (mkTM n o) pat)
  | 2, [d; n; o] => obs_text (dt_format (mkDT d n o) pat)
  | _, _ => OErr 9 []
  end.

Definition check_C11 (c : case) : Z :=
  match c_op c, c_ints c, c_strs c with
  | Op_fmt, kind :: rest, pat :: qs =>
      let val := firstn (nvals kind) rest in
      let mo := model_fmt kind val pat in
      let spec :=
        match skipn (nvals kind) rest with
        | n :: its =>
            match dec_items (Z.to_nat n) its (pat :: qs), fields_of kind val with
            | Some items, Some F =>
                if (n =? 0) then negb (match c_out c with OPanic => true | _ => false end)
                else wf_items items && text_eqb (unparse items) pat
                     && match c_out c with OOk [] [out] => text_eqb (render kind F items) out | _ => false end
            | _, _ => false end
        | [] => false end in
      verdict (obs_eqb mo (c_out c)) spec
  | _, _, _ => V_MALFORMED
  end.

(* ---------------------------------------------------------------- C12 *)
Definition model_parse (kind now_year : Z) (inp pat : text) : obs :=
  match kind with
  | 0 => obs_date (date_parse now_year inp pat)
  | 1 => obs_tm (time_parse inp pat)
  | _ => obs_dt (dt_parse now_year inp pat)
  end.
Definition model_roundtrip (kind now_year : Z) (val : list Z) (pat : text) : obs :=
  match model_fmt kind val pat with
  | OOk [] [a] =>
      match model_parse kind now_year a pat with
      | OOk w [] => match model_fmt kind w pat with OOk [] [b] => OOk w [a; b] | o => o end
      | o => o end
  | o => o end.

(* which kinds of field a pattern carries *)
Definition has_sym (items : list pitem) (syms : list Z) : bool :=
  existsb (fun it => match it with PField c _ => existsb (Z.eqb c) syms | _ => false end) items.
Definition full_date (items : list pitem) : bool := has_sym items [121] && ((has_sym items [77] && has_sym items [100]) || has_sym items [68]).
Definition zone_width_ok (items : list pitem) (off : Z) : bool :=
  forallb (fun it => match it with
                     | PField c w => if (c =? 88) || (c =? 120) then (if (w =? 4) || (w =? 5) then true else off mod 60 =? 0) else true
                     | _ => true end) items.
Definition subsec_digits (items : list pitem) : Z :=
  fold_left (fun acc it => match it with PField 110 w => Z.max acc (if w =? 1 then 1 else if w =? 2 then 2 else if w =? 4 then 6 else if w =? 5 then 9 else 3) | _ => acc end) items 0.
Definition full_time (items : list pitem) : bool :=
  (has_sym items [72; 107] || (has_sym items [104; 75] && has_sym items [97; 98])) && has_sym items [109] && has_sym items [115].

Definition check_C12 (c : case) : Z :=
  match c_op c, c_ints c, c_strs c with
  | Op_roundtrip, kind :: now_year :: rest, pat :: qs =>
      let val := firstn (nvals kind) rest in
      let mo := model_roundtrip kind now_year val pat in
      let spec :=
        match skipn (nvals kind) rest with
        | n :: its =>
            match dec_items (Z.to_nat n) its (pat :: qs) with
            | Some items =>
                let off := match kind, val with 1, [_; o] => o | 2, [_; _; o] => o | _, _ => 0 end in
                if negb (zone_width_ok items off) then true else      (* outside the property's grammar: zone symbol too narrow *)
                match c_out c with
                | OOk w [a; b] =>
                    text_eqb a b
                    && (* same instant and offset when the pattern carries a full date, time of day and zone *)
                       (match kind, val, w with
                        | 2, [d; nn; o], [d'; n'; o'] =>
                            if full_date items && full_time items && has_sym items [88; 120]
                            then let p := 10 ^ (9 - subsec_digits items) in
                                 (o' =? o) && (d' * NPDz + n' =? (d * NPDz + nn + o * NANOS_PER_SEC) / p * p - o * NANOS_PER_SEC)
                            else true
                        | 0, [d], [d'] => if full_date items then d' =? d else true
                        | _, _, _ => true end)
                | OErr 1 _ =>
                    (* refusing is right only when the value read back is not representable (range ends) *)
                    match kind, val with
                    | 2, [d; _; _] => (d <=? I32_MIN + 400) || (I32_MAX - 400 <=? d)
                    | 0, [d] => (d <=? I32_MIN + 400) || (I32_MAX - 400 <=? d)
                    | _, _ => false end
                | _ => false end
            | None => false end
        | [] => false end in
      verdict (obs_eqb mo (c_out c)) spec
  | _, _, _ => V_MALFORMED
  end.

(* ---------------------------------------------------------------- C13 *)
Definition check_C13 (c : case) : Z :=
  match c_op c, c_ints c, c_strs c with
  | Op_rfc_fmt, [d; n; o; prec], [] =>
      let mo := obs_text (dt_format_rfc3339 (mkDT d n o) prec) in
      let spec :=
        match c_out c with
        | OOk [] [out] =>
            match rfc_split out with
            | Some p => rfc_in_range p &&
                        (let '(inst, off) := rfc_denote p in
                         let unit := 10 ^ (9 - prec) in
                         (off =? o) && (inst =? (d * NPDz + n + o * NANOS_PER_SEC) / unit * unit - o * NANOS_PER_SEC)
                         && (Z.of_nat (length (r_frac p)) =? prec))
            | None => false end
        | _ => false end in
      verdict (obs_eqb mo (c_out c)) spec
  | Op_rfc_parse, [], [s] =>
      let mo := obs_dt (dt_parse_rfc3339 s) in
      let spec :=
        match rfc_split s with
        | Some p =>
            if rfc_in_range p then
              match c_out c with
              | OOk [d; n; o] [] => let '(inst, off) := rfc_denote p in (o =? off) && (d * NPDz + n =? inst) && (0 <=? n) && (n <? NPDz)
              | _ => false end
            else (match c_out c with OErr _ _ => true | _ => false end)
        | None => negb (match c_out c with OPanic => true | _ => false end)
        end in
      verdict (obs_same_class mo (c_out c)) spec
  | _, _, _ => V_MALFORMED
  end.

(* ---------------------------------------------------------------- C14 *)
Definition valid_out (kind : Z) (out : obs) : bool :=
  match out with
  | OPanic => false
  | OOk w _ => match kind, w with
               | 0, [d] => in_i32b d
               | 1, [n; o] => (0 <=? n) && (n <? NPDz) && (-86400 <? o) && (o <? 86400)
               | 2, [d; n; o] => in_i32b d && (0 <=? n) && (n <? NPDz) && (-86400 <? o) && (o <? 86400)
               | _, _ => true end
  | _ => true end.
Definition model_fromstr (kind : Z) (s : text) : obs :=
  match kind with
  | 0 => obs_date (date_from_str 2000 s)
  | 1 => obs_tm (time_from_str s)
  | 3 => match parse_expression s with Some _ => OOk [] [] | None => OErr 2 [] end
  | _ => obs_dt (dt_from_str s)
  end.
Definition check_C14 (c : case) : Z :=
  match c_op c, c_ints c, c_strs c with
  | Op_parse, [kind; now_year], [inp; pat] =>
      verdict (obs_same_class (model_parse kind now_year inp pat) (c_out c)) (valid_out kind (c_out c))
  | Op_fmt, kind :: rest, pat :: _ =>
      verdict (obs_eqb (model_fmt kind (firstn (nvals kind) rest) pat) (c_out c)) (valid_out 9 (c_out c))
  | Op_rfc_parse, [], [s] => verdict (obs_same_class (obs_dt (dt_parse_rfc3339 s)) (c_out c)) (valid_out 2 (c_out c))
  | Op_fromstr, [kind], [s] => verdict (obs_same_class (model_fromstr kind s) (c_out c)) (valid_out kind (c_out c))
  (* str::parse::<u8 | u32 | u64 | i32> against Text.parse_unsigned / Text.parse_signed *)
  | Op_std_parse, [t], [s] =>
      let m := match t with 0 => parse_unsigned 255 s | 1 => parse_unsigned U32_MAX s | 2 => parse_unsigned U64_MAX s | _ => parse_signed I32_MIN I32_MAX s end in
      verdict (match m, c_out c with Some v, OOk [w] [] => v =? w | None, OErr 2 _ => true | _, _ => false end) true
  | _, _, _ => V_MALFORMED
  end.

(* ---------------------------------------------------------------- C08 (text entry points of Time)
   Time::parse and Time::from_str are public ways to obtain a Time: their Ok must lie inside the day (valid_out 1),
   and the model must agree in class; every other operation of the C08 stream goes to CasesArith.check_C08. *)
Definition check_C08x (c : case) : Z :=
  match c_op c, c_ints c, c_strs c with
  | Op_parse, [1; now_year], [inp; pat] =>
      verdict (obs_same_class (model_parse 1 now_year inp pat) (c_out c)) (valid_out 1 (c_out c))
  | Op_fromstr, [1], [s] =>
      verdict (obs_same_class (model_fromstr 1 s) (c_out c)) (valid_out 1 (c_out c))
  (* setters, clears and offset changes of a Time: the oracles of C09 / C10, and the result must lie inside the day *)
  | (Op_time_set | Op_time_clear), _, _ =>
      let v := CasesArith.check_C09 c in if (v =? V_MALFORMED) || valid_out 1 (c_out c) then v else Z.lor v 2
  | (Op_time_set_offset | Op_time_as_offset), _, _ =>
      let v := CasesArith.check_C10 c in if (v =? V_MALFORMED) || valid_out 1 (c_out c) then v else Z.lor v 2
  | _, _, _ => CasesArith.check_C08 c
  end.

(* ---------------------------------------------------------------- C20 *)
Definition model_ser (kind : Z) (val : list Z) : obs :=
  match kind, val with
  | 0, [d] => obs_text (date_serialize d)
  | 1, [n; o] => obs_text (time_serialize (mkTM n o))
  | 2, [d; n; o] => obs_text (dt_serialize (mkDT d n o))
  | _, _ => OErr 9 [] end.
Definition check_C20 (c : case) : Z :=
  match c_op c, c_ints c, c_strs c with
  | Op_display, kind :: val, [] =>
      let mo := model_fmt kind val (match kind with 0 => P_DATE_DISPLAY | 1 => P_TIME | _ => P_DT_DISPLAY end) in
      let spec := match fields_of kind val, c_out c with
                  | Some F, OOk [] [out] =>
                      let dpart := pad_signed (vf_year F) 4 ++ [47] ++ pad (vf_month F) 2 ++ [47] ++ pad (vf_day F) 2 in
                      let tpart := pad (vf_hour F) 2 ++ [58] ++ pad (vf_minute F) 2 ++ [58] ++ pad (vf_second F) 2 in
                      text_eqb out (match kind with 0 => dpart | 1 => tpart | _ => dpart ++ [32] ++ tpart end)
                  | _, _ => false end in
      verdict (obs_eqb mo (c_out c)) spec
  | Op_serde_rt, kind :: val, [] =>
      (* serialize, then deserialize what was written *)
      let mo := match model_ser kind val with
                | OOk [] [s] => match model_fromstr kind s with OOk w [] => OOk w [s] | OErr _ _ => OErr 4 [] | o => o end
                | o => o end in
      let spec := match kind, val, c_out c with
                  | 0, [d], OOk [d'] _ => d' =? d
                  | 1, [n; o], OOk [n'; o'] _ => (o' =? 0) && (n' =? (n + o * NANOS_PER_SEC) mod NPDz / NANOS_PER_SEC * NANOS_PER_SEC)
                  | 2, [d; n; o], OOk [d'; n'; o'] _ => (o' =? o) && (d' * NPDz + n' =? (d * NPDz + n + o * NANOS_PER_SEC) / NANOS_PER_SEC * NANOS_PER_SEC - o * NANOS_PER_SEC)
                  | _, _, _ => false end in
      verdict (obs_eqb mo (c_out c)) spec
  | Op_fromstr, [kind], [s] => verdict (obs_same_class (model_fromstr kind s) (c_out c)) (valid_out kind (c_out c))
  | Op_serde_de, [kind], [s] =>
      let mo := match model_fromstr kind s with OOk w [] => OOk w [] | OErr _ _ => OErr 4 [] | o => o end in
      verdict (obs_eqb mo (c_out c)) (valid_out kind (c_out c))
  | _, _, _ => V_MALFORMED
  end.
