#!/usr/bin/env python3
"""C19: exercises the real Offset::Local -> /etc/localtime glue.

For each chosen file content, a private mount namespace is created (unshare --mount), the content is bind-mounted
over /etc/localtime, and the harness runs Offset::Local.resolve() there (op tz_local).  Prints the harness rows.
If mount namespaces are not available in the environment, prints nothing (the sub-check is skipped, not failed).
usage: local_glue.py <harness-binary> <tier>"""
import sys, os, glob, subprocess, tempfile, shutil

ROOT = os.path.dirname(os.path.dirname(os.path.abspath(__file__)))

def contents(tier):
    out = []
    files = [f for f in sorted(glob.glob(os.path.join(ROOT, "corpus", "tz", "**", "*"), recursive=True)) if os.path.isfile(f)]
    for f in files if tier == "thorough" else files[:6]:
        out.append(open(f, "rb").read())
    good = out[0] if out else b""
    hostile = [b"", b"TZif", b"TZif2" + b"\0" * 39, b"not a tzif file at all", good[: len(good) // 2], good[:44],
               b"TZif2" + b"\0" * 15 + b"\xff" * 24, good + b"trailing"]
    # footers that used to crash the lookup
    for footer in [b"\nAAA0BBB,M13.1.0,M3.1.0\n", b"\nAAA0BBB,J0,J366\n", b"\nAAA0BBB,365,M3.6.0\n", b"\n\n", b"\nAAA99999999999999999999\n"]:
        idx = good.rfind(b"\n", 0, len(good) - 1)
        if idx > 0:
            hostile.append(good[:idx] + footer)
    return out + hostile

def main():
    binary, tier = sys.argv[1], sys.argv[2]
    if tier == "--lines":      # replay: input lines "tz_local;;x<hex of the one-char-per-byte string>" on stdin
        datas = [bytes(ord(ch) for ch in bytes.fromhex(l.strip().split(";x", 1)[1]).decode("utf-8")) for l in sys.stdin if l.startswith("tz_local;")]
    else:
        datas = None
    if shutil.which("unshare") is None:
        return
    probe = subprocess.run(["unshare", "--mount", "true"], stdout=subprocess.DEVNULL, stderr=subprocess.DEVNULL)
    if probe.returncode != 0 or not os.path.exists("/etc/localtime"):
        return
    work = tempfile.mkdtemp(prefix="lt_", dir=os.path.join(ROOT, ".cache"))
    try:
        for i, data in enumerate(datas if datas is not None else contents(tier)):
            path = os.path.join(work, "localtime_%d" % i)
            open(path, "wb").write(data)
            line = "tz_local;;x" + "".join(chr(b) for b in data).encode("utf-8").hex()   # one char per byte, as the other tz ops
            script = 'mount --bind "$1" /etc/localtime && printf "%s\\n" "$2" | "$3" replay'
            r = subprocess.run(["unshare", "--mount", "sh", "-c", script, "sh", path, line, binary],
                               stdout=subprocess.PIPE, stderr=subprocess.PIPE, text=True, timeout=120)
            if r.returncode == 0:
                sys.stdout.write(r.stdout)
    finally:
        shutil.rmtree(work, ignore_errors=True)

if __name__ == "__main__":
    main()
