(* CasesArith.v — correspondence and specification oracles for the arithmetic properties
   C03, C04, C06, C08 (and helpers shared with C02, C05, C07, C09, C10, C15). *)
From Astro Require Import Base CalSpec DateModel TimeModel ApiModel InstantSpec Cases.

Definition unit_of_code (u : Z) : option tunit :=
  match u with 0 => Some UHour | 1 => Some UMinute | 2 => Some USecond | 3 => Some UMilli | 4 => Some UMicro | 5 => Some UNano | _ => None end.
Definition unit_size (u : Z) : Z :=
  match u with 0 => NANOS_PER_HOUR | 1 => NANOS_PER_MINUTE | 2 => NANOS_PER_SEC | 3 => 1000000 | 4 => 1000 | 5 => 1 | _ => NANOS_PER_DAY end.

Definition obs_dt (r : res DT) : obs := obs_of (fun v => OOk [dt_days v; dt_nanos v; dt_off v] []) r.
Definition obs_tm (r : res TM) : obs := obs_of (fun t => OOk [tm_nanos t; tm_off t] []) r.
Definition obs_z (r : res Z) : obs := obs_of (fun z => OOk [z] []) r.
Definition inst (d n : Z) : Z := d * NANOS_PER_DAY + n.
Definition cmp_code (c : comparison) : Z := match c with Lt => -1 | Eq => 0 | Gt => 1 end.
Definition b2z (b : bool) : Z := if b then 1 else 0.

(* the observed DateTime, if any, denotes instant t with offset o and a well-formed representation *)
Definition out_is_instant (out : obs) (t o : Z) : bool :=
  match out with
  | OOk [d; n; o'] [] => (inst d n =? t) && (o' =? o) && in_i32b d && (0 <=? n) && (n <? NANOS_PER_DAY)
  | _ => false
  end.
Definition out_is_panic (out : obs) : bool := match out with OPanic => true | _ => false end.
(* "moves to t when representable, panics otherwise" *)
Definition moved_or_panic (out : obs) (t o : Z) : bool :=
  if inst_in_rangeb t then out_is_instant out t o else out_is_panic out.

(* ---------------------------------------------------------------- C03 *)
Definition check_C03 (c : case) : Z :=
  match c_op c, c_ints c with
  | Op_dt_from_ts, [t] =>
      let mo := match dt_from_timestamp false t with
                | Ok v => let '(y, m, d) := dt_as_ymd v in let '(h, mi, s) := dt_as_hms v in
                          OOk [dt_days v; dt_nanos v; dt_off v; dt_timestamp v; y; m; d; h; mi; s] []
                | _ => OPanic end in
      let spec := if ts_in_rangeb t then
                    match c_out c with
                    | OOk [d; n; o; back; y; m; dd; h; mi; s] [] =>
                        (inst d n =? (t + EPOCH_SECS) * NANOS_PER_SEC) && (o =? 0) && (back =? t)
                        && implb (t =? 0) ((y =? 1970) && (m =? 1) && (dd =? 1) && (h =? 0) && (mi =? 0) && (s =? 0))
                    | _ => false end
                  else out_is_panic (c_out c) in
      verdict (obs_eqb mo (c_out c)) spec
  | Op_date_from_ts, [t] =>
      let mo := match date_from_timestamp t with Ok d => OOk [d; date_timestamp d] [] | _ => OPanic end in
      let spec := if ts_in_rangeb t then
                    match c_out c with
                    | OOk [d; back] [] => (d =? (t + EPOCH_SECS) / SECS_PER_DAY) && (back =? t / SECS_PER_DAY * SECS_PER_DAY)
                    | _ => false end
                  else out_is_panic (c_out c) in
      verdict (obs_eqb mo (c_out c)) spec
  | Op_dt_cmp, [d1; n1; o1; d2; n2; o2] =>
      let a := mkDT d1 n1 o1 in let b := mkDT d2 n2 o2 in
      let cm := Z.compare (dt_as_nanos a) (dt_as_nanos b) in
      let mo := OOk [cmp_code cm; b2z (dt_as_nanos a =? dt_as_nanos b); b2z (match cm with Lt => true | _ => false end);
                     b2z (match cm with Lt => false | _ => true end)] [] in
      let cs := Z.compare (inst d1 n1) (inst d2 n2) in
      let so := OOk [cmp_code cs; b2z (inst d1 n1 =? inst d2 n2); b2z (inst d1 n1 <? inst d2 n2); b2z (inst d2 n2 <=? inst d1 n1)] [] in
      verdict (obs_eqb mo (c_out c)) (obs_eqb so (c_out c))
  | Op_date_cmp, [d1; d2] =>
      let so := OOk [cmp_code (Z.compare d1 d2); b2z (d1 =? d2); b2z (d1 <? d2); b2z (d2 <=? d1)] [] in
      verdict (obs_eqb so (c_out c)) (obs_eqb so (c_out c))
  | Op_time_cmp, [n1; o1; n2; o2] =>
      let so := OOk [cmp_code (Z.compare n1 n2); b2z (n1 =? n2); b2z (n1 <? n2); b2z (n2 <=? n1)] [] in
      verdict (obs_eqb so (c_out c)) (obs_eqb so (c_out c))
  | _, _ => V_MALFORMED
  end.

(* ---------------------------------------------------------------- C04 *)
Definition check_C04 (c : case) : Z :=
  match c_op c, c_ints c with
  | Op_dt_add, [u; d; n; o; k] =>
      let v := mkDT d n o in
      let mo := match unit_of_code u with Some tu => obs_dt (dt_add tu v k) | None => obs_dt (dt_add_days v k) end in
      verdict (obs_eqb mo (c_out c)) (moved_or_panic (c_out c) (inst d n + k * unit_size u) o)
  | Op_dt_sub, [u; d; n; o; k] =>
      let v := mkDT d n o in
      let mo := match unit_of_code u with Some tu => obs_dt (dt_sub tu v k) | None => obs_dt (dt_sub_days v k) end in
      verdict (obs_eqb mo (c_out c)) (moved_or_panic (c_out c) (inst d n - k * unit_size u) o)
  | Op_dt_add_dur, [d; n; o; secs; ns] =>
      let a := secs * NANOS_PER_SEC + ns in
      verdict (obs_eqb (obs_dt (dt_add_nanos_total (mkDT d n o) a)) (c_out c)) (moved_or_panic (c_out c) (inst d n + a) o)
  | Op_dt_sub_dur, [d; n; o; secs; ns] =>
      let a := secs * NANOS_PER_SEC + ns in
      verdict (obs_eqb (obs_dt (dt_sub_nanos_total (mkDT d n o) a)) (c_out c)) (moved_or_panic (c_out c) (inst d n - a) o)
  | Op_dt_add_time, [d; n; o; tn; _] =>
      verdict (obs_eqb (obs_dt (dt_add_nanos_total (mkDT d n o) tn)) (c_out c)) (moved_or_panic (c_out c) (inst d n + tn) o)
  | Op_dt_sub_time, [d; n; o; tn; _] =>
      verdict (obs_eqb (obs_dt (dt_sub_nanos_total (mkDT d n o) tn)) (c_out c)) (moved_or_panic (c_out c) (inst d n - tn) o)
  | Op_date_add_days, [d; k] =>
      let so := if in_i32b (d + k) then OOk [d + k] [] else OPanic in
      verdict (obs_eqb (obs_z (date_add_days d k)) (c_out c)) (obs_eqb so (c_out c))
  | Op_date_sub_days, [d; k] =>
      let so := if in_i32b (d - k) then OOk [d - k] [] else OPanic in
      verdict (obs_eqb (obs_z (date_sub_days d k)) (c_out c)) (obs_eqb so (c_out c))
  | Op_date_add_dur, [d; secs; _] =>
      let t := d + secs / SECS_PER_DAY in
      let so := if in_i32b t then OOk [t] [] else OPanic in
      verdict (obs_eqb (obs_z (date_add_dur d secs)) (c_out c)) (obs_eqb so (c_out c))
  | Op_date_sub_dur, [d; secs; _] =>
      let t := d - secs / SECS_PER_DAY in
      let so := if in_i32b t then OOk [t] [] else OPanic in
      verdict (obs_eqb (obs_z (date_sub_dur d secs)) (c_out c)) (obs_eqb so (c_out c))
  | _, _ => V_MALFORMED
  end.

(* ---------------------------------------------------------------- C06 *)
Definition check_C06 (c : case) : Z :=
  match c_op c, c_ints c with
  | Op_dt_since, [u; d1; n1; o1; d2; n2; o2] =>
      let a := mkDT d1 n1 o1 in let b := mkDT d2 n2 o2 in
      let m := match u with
               | 0 => dt_hours_since a b | 1 => dt_minutes_since a b | 2 => dt_seconds_since a b
               | 3 => dt_millis_since a b | 4 => dt_micros_since a b | 5 => dt_nanos_since a b | _ => dt_days_since a b end in
      let s := Z.quot (inst d1 n1 - inst d2 n2) (unit_size u) in
      verdict (obs_eqb (OOk [m] []) (c_out c)) (obs_eqb (OOk [s] []) (c_out c))
  | Op_dt_dur_between, [d1; n1; o1; d2; n2; o2] =>
      let a := mkDT d1 n1 o1 in let b := mkDT d2 n2 o2 in
      let s := Z.abs (inst d1 n1 - inst d2 n2) in
      verdict (obs_eqb (OOk [dt_duration_between a b; dt_duration_between b a] []) (c_out c)) (obs_eqb (OOk [s; s] []) (c_out c))
  | Op_time_since, [u; n1; o1; n2; o2] =>
      let a := mkTM n1 o1 in let b := mkTM n2 o2 in
      let m := match u with
               | 0 => time_hours_since a b | 1 => time_minutes_since a b | 2 => time_seconds_since a b
               | 3 => time_millis_since a b | 4 => time_micros_since a b | _ => time_nanos_since a b end in
      let s := Z.quot (n1 - n2) (unit_size u) in
      verdict (obs_eqb (OOk [m] []) (c_out c)) (obs_eqb (OOk [s] []) (c_out c))
  | Op_time_dur_between, [n1; o1; n2; o2] =>
      let s := Z.abs (n1 - n2) in
      verdict (obs_eqb (OOk [time_duration_between (mkTM n1 o1) (mkTM n2 o2); time_duration_between (mkTM n2 o2) (mkTM n1 o1)] []) (c_out c))
              (obs_eqb (OOk [s; s] []) (c_out c))
  | Op_date_days_since, [d1; d2] =>
      verdict (obs_eqb (OOk [date_days_since d1 d2] []) (c_out c)) (obs_eqb (OOk [d1 - d2] []) (c_out c))
  | Op_date_dur_between, [d1; d2] =>
      let s := Z.abs (d1 - d2) * NANOS_PER_DAY in
      verdict (obs_eqb (OOk [date_duration_between d1 d2 * NANOS_PER_SEC; date_duration_between d2 d1 * NANOS_PER_SEC] []) (c_out c))
              (obs_eqb (OOk [s; s] []) (c_out c))
  | _, _ => V_MALFORMED
  end.

(* ---------------------------------------------------------------- C08 *)
Definition tm_is (out : obs) (n o : Z) : bool :=
  match out with OOk [n'; o'] [] => (n' =? n) && (o' =? o) && (0 <=? n') && (n' <? NANOS_PER_DAY) | _ => false end.
Definition is_oor (out : obs) : bool := match out with OErr 1 _ => true | _ => false end.

Definition check_C08 (c : case) : Z :=
  match c_op c, c_ints c with
  | Op_time_ctor, [0; h; m; s] =>
      let spec := if (h <=? 23) && (m <=? 59) && (s <=? 59) then tm_is (c_out c) ((h * 3600 + m * 60 + s) * NANOS_PER_SEC) 0 else is_oor (c_out c) in
      verdict (obs_same_class (obs_tm (time_from_hms h m s)) (c_out c)) spec
  | Op_time_ctor, [1; s] =>
      let spec := if s <? SECS_PER_DAY then tm_is (c_out c) (s * NANOS_PER_SEC) 0 else is_oor (c_out c) in
      verdict (obs_eqb (obs_tm (time_from_seconds s)) (c_out c)) spec
  | Op_time_ctor, [2; n] =>
      let spec := if n <? NANOS_PER_DAY then tm_is (c_out c) n 0 else is_oor (c_out c) in
      verdict (obs_eqb (obs_tm (time_from_nanos n)) (c_out c)) spec
  | Op_time_add, [u; n; o; k] =>
      match unit_of_code u with
      | Some tu => verdict (obs_eqb (obs_tm (Ok (time_add tu (mkTM n o) k))) (c_out c)) (tm_is (c_out c) ((n + k * unit_size u) mod NANOS_PER_DAY) o)
      | None => V_MALFORMED end
  | Op_time_sub, [u; n; o; k] =>
      match unit_of_code u with
      | Some tu => verdict (obs_eqb (obs_tm (Ok (time_sub tu (mkTM n o) k))) (c_out c)) (tm_is (c_out c) ((n - k * unit_size u) mod NANOS_PER_DAY) o)
      | None => V_MALFORMED end
  | Op_time_add_time, [n; o; n2; o2] =>
      verdict (obs_eqb (obs_tm (Ok (time_add_time (mkTM n o) (mkTM n2 o2)))) (c_out c)) (tm_is (c_out c) ((n + n2) mod NANOS_PER_DAY) o)
  | Op_time_sub_time, [n; o; n2; o2] =>
      verdict (obs_eqb (obs_tm (Ok (time_sub_time (mkTM n o) (mkTM n2 o2)))) (c_out c)) (tm_is (c_out c) ((n - n2) mod NANOS_PER_DAY) o)
  | Op_time_add_dur, [n; o; secs; ns] =>
      let a := secs * NANOS_PER_SEC + ns in
      verdict (obs_eqb (obs_tm (Ok (time_add_dur (mkTM n o) a))) (c_out c)) (tm_is (c_out c) ((n + a) mod NANOS_PER_DAY) o)
  | Op_time_sub_dur, [n; o; secs; ns] =>
      let a := secs * NANOS_PER_SEC + ns in
      verdict (obs_eqb (obs_tm (Ok (time_sub_dur (mkTM n o) a))) (c_out c)) (tm_is (c_out c) ((n - a) mod NANOS_PER_DAY) o)
  | Op_time_get, [n; o] =>
      let t := mkTM n o in
      let '(h, m, s) := time_as_hms t in
      let mo := OOk [tm_nanos t; time_as_seconds t; h; m; s; time_hour t; time_minute t; time_second t; time_milli t; time_micro t; time_nano t] [] in
      let l := (n + o * NANOS_PER_SEC) mod NANOS_PER_DAY in
      let so := OOk [n; n / NANOS_PER_SEC; n / NANOS_PER_HOUR; (n / NANOS_PER_MINUTE) mod 60; (n / NANOS_PER_SEC) mod 60;
                     l / NANOS_PER_HOUR; (l / NANOS_PER_MINUTE) mod 60; (l / NANOS_PER_SEC) mod 60;
                     (l mod NANOS_PER_SEC) / 1000000; (l mod NANOS_PER_SEC) / 1000; l mod NANOS_PER_SEC] [] in
      verdict (obs_eqb mo (c_out c)) (obs_eqb so (c_out c))
  | Op_time_of_dt, [d; n; o] =>
      verdict (obs_eqb (obs_tm (Ok (time_of_dt (mkDT d n o)))) (c_out c)) (tm_is (c_out c) n o)
  | _, _ => V_MALFORMED
  end.

(* ---------------------------------------------------------------- C02 *)
From Astro Require Import DateProofs WeekProofs.
Definition local_day (d n o : Z) : Z := (d * NANOS_PER_DAY + n + o * NANOS_PER_SEC) / NANOS_PER_DAY.

Definition info_model (d : Z) : obs :=
  match days_to_doy d with
  | Ok doy => let '(y, m, _) := days_to_date d in
      OOk [days_to_wday d false; doy; days_to_wyear d; fmt_quarter d; fmt_wday_e d; fmt_wday_e7 d; doy; m; y] []
  | _ => OPanic end.
(* specification: weekday from the Thursday anchor, day of year from 1 January of the reported year,
   ISO week by the Thursday rule, quarter from the month *)
Definition info_spec (d : Z) (out : obs) : bool :=
  match out with
  | OOk [wd; doy; w; q; e; e7; dd; m; y] [] =>
      let j := rd (y, 1, 1) in
      (wd =? (4 + (d - 719162)) mod 7) && negb (y =? 0) && (j <=? d) && (d <? j + ylen y) && (doy =? 1 + d - j) && (dd =? doy)
      && (w =? iso_week_exec d) && (q =? (m - 1) / 3 + 1) && (e =? wd + 1) && (e7 =? (wd + 6) mod 7 + 1)
  | _ => false end.

Definition check_C02 (c : case) : Z :=
  match c_op c, c_ints c with
  | Op_date_info, [d] => verdict (obs_eqb (info_model d) (c_out c)) (info_spec d (c_out c))
  | Op_dt_info, [d; n; o] =>
      let l := local_day d n o in verdict (obs_eqb (info_model l) (c_out c)) (info_spec l (c_out c))
  | Op_date_set, [3; d; n] =>
      let mo := obs_z (set_day_of_year d n) in
      let '(y, _, _) := days_to_date d in
      let t := rd (y, 1, 1) + n - 1 in
      let spec := if (1 <=? n) && (n <=? ylen y) && in_i32b t
                  then obs_eqb (OOk [t] []) (c_out c) else is_oor (c_out c) in
      verdict (obs_same_class mo (c_out c)) spec
  | _, _ => V_MALFORMED
  end.

(* ---------------------------------------------------------------- C05 *)
From Astro Require Import MonthProofs.
Definition addm_model (kind d k : Z) : res Z :=
  match kind with 0 => date_add_months d k | 1 => date_sub_months d k | 2 => date_add_years d k | _ => date_sub_years d k end.
Definition addm_spec_date (kind d k : Z) : date :=
  let x := days_to_date d in
  match kind with 0 => add_months_spec x k | 1 => add_months_spec x (- k) | 2 => add_years_spec x k | _ => add_years_spec x (- k) end.

Definition check_C05 (c : case) : Z :=
  match c_op c, c_ints c with
  | Op_date_addm, [kind; d; k] =>
      let t := addm_spec_date kind d k in
      let so := if in_rangeb t then OOk [rd t] [] else OPanic in
      verdict (obs_eqb (obs_z (addm_model kind d k)) (c_out c)) (obs_eqb so (c_out c))
  | Op_dt_addm, [kind; d; n; o; k] =>
      let t := addm_spec_date kind d k in
      let so := if in_rangeb t then OOk [rd t; n; o] [] else OPanic in
      let mo := match addm_model kind d k with Ok d' => OOk [d'; n; o] [] | _ => OPanic end in
      verdict (obs_eqb mo (c_out c)) (obs_eqb so (c_out c))
  | _, _ => V_MALFORMED
  end.

(* ---------------------------------------------------------------- C07 *)
Definition dn_leb (a b : Z * Z) : bool := (fst a <? fst b) || ((fst a =? fst b) && (snd a <=? snd b)).
Definition dn_ltb (a b : Z * Z) : bool := (fst a <? fst b) || ((fst a =? fst b) && (snd a <? snd b)).
(* characterisation where it applies (a >= b, b's day <= 28); antisymmetry and years = months/12 always *)
Definition ms_spec (d1 n1 d2 n2 m y m' y' : Z) : bool :=
  let B := days_to_date d2 in let A := days_to_date d1 in
  (m' =? - m) && (y =? Z.quot m 12) && (y' =? Z.quot m' 12)
  && (if dn_leb (d2, n2) (d1, n1) && (snd B <=? 28)
      then (0 <=? m) && dn_leb (rd (add_months_spec B m), n2) (d1, n1) && dn_ltb (d1, n1) (rd (add_months_spec B (m + 1)), n2)
      else true)
  && (if dn_leb (d1, n1) (d2, n2) && (snd A <=? 28)
      then (0 <=? m') && dn_leb (rd (add_months_spec A m'), n1) (d2, n2) && dn_ltb (d2, n2) (rd (add_months_spec A (m' + 1)), n1)
      else true).
Definition check_C07 (c : case) : Z :=
  match c_op c, c_ints c, c_out c with
  | Op_date_ms, [d1; d2], OOk [m; y; m'; y'] [] =>
      let mo := OOk [months_between d1 0 d2 0; years_between d1 0 d2 0; months_between d2 0 d1 0; years_between d2 0 d1 0] [] in
      verdict (obs_eqb mo (c_out c)) (ms_spec d1 0 d2 0 m y m' y')
  | Op_dt_ms, [d1; n1; o1; d2; n2; o2], OOk [m; y; m'; y'] [] =>
      let mo := OOk [months_between d1 n1 d2 n2; years_between d1 n1 d2 n2; months_between d2 n2 d1 n1; years_between d2 n2 d1 n1] [] in
      verdict (obs_eqb mo (c_out c)) (ms_spec d1 n1 d2 n2 m y m' y')
  | _, _, _ => V_MALFORMED
  end.
