(* C19 — malformed or hostile timezone data is rejected, never a crash.
   TzModel transcribes the reader with every partial operation explicit (TzPanic marks expect/unwrap/indexing);
   the theorems say no execution reaches one. *)
From Astro Require Import Base Text DateModel TimeModel ApiModel InstantSpec TzModel TzProofs.

(* for EVERY byte string the parser returns a timezone or an error *)
Theorem C19_parse_total : forall bs, from_tzif bs <> TzPanic.
Proof. exact from_tzif_no_panic. Qed.
(* what an accepted file guarantees: type indices inside the table, a type or a rule to fall back on, rule fields in range *)
Theorem C19_parse_wf : forall bs tz, Forall (fun b => 0 <= b) bs -> from_tzif bs = TzOk tz -> tz_wf tz.
Proof. exact from_tzif_wf. Qed.
(* ... and on such a structure every lookup inside the DateTime range returns an offset *)
Theorem C19_lookup_total : forall tz t, tz_wf tz -> ts_in_range t -> to_local_time_type tz t <> TzPanic.
Proof. exact lookup_no_panic. Qed.
(* Offset::Local with any file content (or none) and any in-range clock reading cannot abort *)
Theorem C19_local_total : forall file now_ts,
  (forall bs, file = Some bs -> Forall (fun b => 0 <= b) bs) -> ts_in_range now_ts -> resolve_local file now_ts <> TzPanic.
Proof. exact resolve_local_no_panic. Qed.
Theorem C19_rule_dates_total : forall rdy time t, rule_day_ok rdy -> time_ok time -> ts_in_range t ->
  rule_to_local_timestamp rdy time t <> TzPanic.
Proof. exact rule_ts_no_panic. Qed.

Example C19_nonvacuous : ts_in_range (-185604722784000) /\ ts_in_range 185480451590399 /\
  rule_day_ok (MonthWeekDay 12 5 6) /\ rule_day_ok (JulianLeap 365) /\ from_tzif [84; 90; 105; 102] = TzErr.
Proof.
  unfold ts_in_range, EPOCH_SECS, DAYS_TO_1970, SECS_PER_DAY, I32_MIN, I32_MAX. cbn. repeat split; lia.
Qed.

Print Assumptions C19_parse_total.
Print Assumptions C19_parse_wf.
Print Assumptions C19_lookup_total.
Print Assumptions C19_local_total.
Print Assumptions C19_rule_dates_total.
