(* Cases.v — the shape in which the Rust harness reports what the implementation did,
   and the verdict codes the correspondence check computes inside Coq.
   A case is: which API operation, its integer and text arguments, and what was observed. *)
From Astro Require Import Base.

Inductive opname :=
(* C01 *)
| Op_date_of_days | Op_dt_of_days | Op_date_from_ymd | Op_dt_from_ymd.

Inductive obs :=
| OOk (zs : list Z) (ss : list (list Z))
| OErr (kind : Z) (zs : list Z)      (* kind 1 = OutOfRange [name; min; max; value; custom?], 2 = InvalidFormat *)
| OPanic.

Record case := mk { c_op : opname; c_ints : list Z; c_strs : list (list Z); c_out : obs }.

(* verdict: 0 ok; 1 model and implementation disagree; 2 the implementation's observed
   behaviour violates the property's specification; 3 both; 4 malformed case (framework fault) *)
Definition verdict (model_agrees spec_holds : bool) : Z :=
  (if model_agrees then 0 else 1) + (if spec_holds then 0 else 2).
Definition V_MALFORMED : Z := 4.

Fixpoint failing_from (check : case -> Z) (i : Z) (cs : list case) : list (Z * Z) :=
  match cs with
  | [] => []
  | c :: tl => let v := check c in
               if v =? 0 then failing_from check (i + 1) tl else (i, v) :: failing_from check (i + 1) tl
  end.
Definition failing (check : case -> Z) (cs : list case) : list (Z * Z) := failing_from check 0 cs.

(* equality tests on observations *)
Fixpoint list_eqb {A} (eqb : A -> A -> bool) (l1 l2 : list A) : bool :=
  match l1, l2 with
  | [], [] => true
  | a :: t1, b :: t2 => eqb a b && list_eqb eqb t1 t2
  | _, _ => false
  end.
Definition zs_eqb := list_eqb Z.eqb.
Definition ss_eqb := list_eqb zs_eqb.
Definition obs_eqb (a b : obs) : bool :=
  match a, b with
  | OOk z1 s1, OOk z2 s2 => zs_eqb z1 z2 && ss_eqb s1 s2
  | OErr k1 z1, OErr k2 z2 => (k1 =? k2) && zs_eqb z1 z2
  | OPanic, OPanic => true
  | _, _ => false
  end.
(* same outcome class and, for errors, same kind (used where the error payload is not in scope) *)
Definition obs_same_class (a b : obs) : bool :=
  match a, b with
  | OOk z1 s1, OOk z2 s2 => zs_eqb z1 z2 && ss_eqb s1 s2
  | OErr k1 _, OErr k2 _ => k1 =? k2
  | OPanic, OPanic => true
  | _, _ => false
  end.

Definition name_code (n : oor_name) : Z :=
  match n with
  | NYear => 1 | NMonth => 2 | NDay => 3 | NDoy => 4 | NHour => 5 | NMinute => 6 | NSecond => 7
  | NSeconds => 8 | NNanoseconds => 9 | NValue => 10 | NTimestamp => 11 | NCustom => 12
  end.

(* observation of a model result whose Ok payload is rendered by f *)
Definition obs_of {A} (f : A -> obs) (r : res A) : obs :=
  match r with
  | Ok a => f a
  | Err (EOor n a b v) => OErr 1 [name_code n; a; b; v; (if match n with NCustom => true | _ => false end then 1 else 0)]
  | Err EFmt => OErr 2 []
  | Panic => OPanic
  end.
