(* C19 — placeholder (extended below). *)
From Astro Require Import Base TzModel.
Theorem C19_placeholder : from_tzif [] = TzErr. Proof. exact eq_refl. Qed.
Print Assumptions C19_placeholder.
