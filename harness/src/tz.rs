//! C18 / C19: the TZif reader through hook H2 (`verif_hooks::tzif_offsets`).
use crate::civil::*;
use crate::common::*;
use astrolabe::DateUtilities;

pub fn bytes_to_str(b: &[u8]) -> String { b.iter().map(|x| *x as char).collect() }
pub fn str_to_bytes(s: &str) -> Vec<u8> { s.chars().map(|c| c as u32 as u8).collect() }

pub const TS_MIN: i128 = (DAY_MIN as i128 - 719_162) * 86_400;
pub const TS_MAX: i128 = (DAY_MAX as i128 - 719_162) * 86_400 + 86_399;

pub fn run(inp: &Input) -> Option<Obs> {
    match inp.op.as_str() {
        // strs[0] = file bytes (one char per byte); ints = [n, ts_1..ts_n, (anything else is for the oracle)]
        "tz_lookup" | "tz_expect" | "tz_synth" => {
            let bytes = str_to_bytes(&inp.strs[0]);
            let n = inp.ints[0] as usize;
            let ts: Vec<i64> = inp.ints[1..1 + n].iter().map(|x| *x as i64).collect();
            Some(guarded(move || match astrolabe::verif_hooks::tzif_offsets(&bytes, &ts) {
                Ok(offs) => Obs::Ok(offs.iter().map(|x| *x as i128).collect(), vec![]),
                Err(_) => Obs::Err(3, vec![]),
            }))
        }
        // Offset::Local.resolve() as it is: reads /etc/localtime and the wall clock.  The caller has bind-mounted the file
        // strs[0] over /etc/localtime (private mount namespace); the clock reading is returned with the offset.
        "tz_local" => {
            Some(guarded(move || {
                loop {
                    let before = astrolabe::DateTime::now().timestamp();
                    let off = astrolabe::Offset::Local.resolve();
                    let after = astrolabe::DateTime::now().timestamp();
                    if before == after { return Obs::Ok(vec![before as i128, off as i128], vec![]); }
                }
            }))
        }
        _ => None,
    }
}

// ---------------------------------------------------------------- synthesized files
#[derive(Clone, Debug)]
pub enum RDay { J(i128), N(i128), M(i128, i128, i128) }
#[derive(Clone, Debug)]
pub enum Rule { None, Fixed(i128), Alt { std: i128, dst: i128, start: RDay, start_time: i128, end: RDay, end_time: i128 } }
#[derive(Clone, Debug)]
pub struct TzAst { pub version: u8, pub trans: Vec<(i128, i128)>, pub types: Vec<i128>, pub rule: Rule }

// when set, the printer writes the canonical long form of TzFooter.v (h:mm:ss everywhere, explicit DST offset and /time)
pub static FULL_FORM: std::sync::atomic::AtomicBool = std::sync::atomic::AtomicBool::new(false);
fn full() -> bool { FULL_FORM.load(std::sync::atomic::Ordering::Relaxed) }
fn hms(mut secs: i128) -> String {
    let neg = secs < 0; if neg { secs = -secs; }
    let (h, m, s) = (secs / 3600, secs / 60 % 60, secs % 60);
    let body = if s != 0 || full() { format!("{}:{:02}:{:02}", h, m, s) } else if m != 0 { format!("{}:{:02}", h, m) } else { format!("{}", h) };
    if neg { format!("-{}", body) } else { body }
}
fn rday(d: &RDay) -> String {
    match d { RDay::J(n) => format!("J{}", n), RDay::N(n) => format!("{}", n), RDay::M(m, w, d) => format!("M{}.{}.{}", m, w, d) }
}
pub fn tz_string(rule: &Rule, quoted: bool) -> String {
    let (a, b) = if quoted { ("<+aa>", "<-bb>") } else { ("STD", "DST") };
    match rule {
        Rule::None => String::new(),
        Rule::Fixed(u) => format!("{}{}", a, hms(-u)),
        Rule::Alt { std, dst, start, start_time, end, end_time } => {
            let dst_part = if *dst == *std + 3600 && !full() { String::new() } else { hms(-dst) };
            let st = if *start_time == 7200 && !full() { String::new() } else { format!("/{}", hms(*start_time)) };
            let et = if *end_time == 7200 && !full() { String::new() } else { format!("/{}", hms(*end_time)) };
            format!("{}{}{}{},{}{},{}{}", a, hms(-std), b, dst_part, rday(start), st, rday(end), et)
        }
    }
}
fn block(v: u8, ast: &TzAst, time_size: usize, extra: (u32, u32, u32, u32)) -> Vec<u8> {
    // header + data block; extra = (charcnt, leapcnt, isstdcnt, isutcnt) of skipped sections
    let mut b = b"TZif".to_vec();
    b.push(v);
    b.extend([0u8; 15]);
    let (charcnt, leapcnt, isstd, isut) = extra;
    for c in [isut, isstd, leapcnt, ast.trans.len() as u32, ast.types.len() as u32, charcnt] { b.extend(c.to_be_bytes()); }
    for (t, _) in &ast.trans { if time_size == 4 { b.extend((*t as i32).to_be_bytes()); } else { b.extend((*t as i64).to_be_bytes()); } }
    for (_, i) in &ast.trans { b.push(*i as u8); }
    for (k, u) in ast.types.iter().enumerate() { b.extend((*u as i32).to_be_bytes()); b.push((k % 2) as u8); b.push(0); }
    b.extend(vec![b'A'; charcnt as usize]);
    b.extend(vec![0u8; leapcnt as usize * (time_size + 4)]);
    b.extend(vec![0u8; isstd as usize]);
    b.extend(vec![1u8; isut as usize]);
    b
}
pub fn encode(ast: &TzAst, quoted: bool, extra: (u32, u32, u32, u32)) -> Vec<u8> {
    match ast.version {
        1 => block(0, ast, 4, extra),
        v => {
            let vb = if v == 2 { b'2' } else { b'3' };
            // the v1 block of a v2+ file: transitions that fit 32 bits only (what zic writes), arbitrary skipped sections
            let v1 = TzAst { version: 1, trans: ast.trans.iter().filter(|(t, _)| *t >= i32::MIN as i128 && *t <= i32::MAX as i128).cloned().collect(), types: ast.types.clone(), rule: Rule::None };
            let mut b = block(vb, &v1, 4, (extra.0, 0, extra.2, 0));
            b.extend(block(vb, ast, 8, extra));
            b.push(b'\n');
            b.extend(tz_string(&ast.rule, quoted).as_bytes());
            b.push(b'\n');
            b
        }
    }
}
pub fn ast_ints(ast: &TzAst) -> Vec<i128> {
    let mut v = vec![ast.version as i128, ast.trans.len() as i128];
    for (t, i) in &ast.trans { v.push(*t); v.push(*i); }
    v.push(ast.types.len() as i128);
    v.extend(ast.types.iter());
    let d = |x: &RDay| match x { RDay::J(n) => vec![0, *n, 0, 0], RDay::N(n) => vec![1, *n, 0, 0], RDay::M(a, b, c) => vec![2, *a, *b, *c] };
    match &ast.rule {
        Rule::None => v.push(0),
        Rule::Fixed(u) => { v.push(1); v.push(*u); }
        Rule::Alt { std, dst, start, start_time, end, end_time } => {
            v.push(2); v.push(*std); v.push(*dst); v.extend(d(start)); v.push(*start_time); v.extend(d(end)); v.push(*end_time);
        }
    }
    v
}
// rule date (day number) of year y, used only to aim timestamps at the switch-overs
fn rule_day_number(y: i64, d: &RDay) -> i64 {
    match d {
        RDay::J(n) => days_from_ymd(y, 1, 1) + (*n as i64 - 1) + if is_leap(y) && *n >= 60 { 1 } else { 0 },
        RDay::N(n) => days_from_ymd(y, 1, 1) + *n as i64,
        RDay::M(m, w, wd) => {
            let first = days_from_ymd(y, *m as i64, 1);
            let wd1 = (first + 1).rem_euclid(7); // 0 = Sunday; day 0 is a Monday
            let mut dom = 1 + (*wd as i64 - wd1).rem_euclid(7) + 7 * (*w as i64 - 1);
            if dom > mlen(y, *m as i64) { dom -= 7; }
            first + dom - 1
        }
    }
}
fn gen_rday(g: &mut Gen, early: bool) -> RDay {
    // "early" switch-over: February..May; "late": August..November (more than a week from 1 January either way)
    match g.rng.next() % 4 {
        0 => RDay::J(if early { *g.rng.pick(&[58i128, 59, 60, 61, 40, 100, 150, 365 - 300]) + if g.rng.chance(1, 3) { g.rng.range(0, 60) } else { 0 } } else { g.rng.range(220, 330) }),
        1 => RDay::N(if early { g.rng.range(40, 150) } else { g.rng.range(220, 330) }),
        _ => RDay::M(if early { g.rng.range(2, 5) } else { g.rng.range(8, 11) }, g.rng.range(1, 5), g.rng.range(0, 6)),
    }
}
pub fn gen_ast(g: &mut Gen) -> TzAst {
    let version = *g.rng.pick(&[1u8, 2, 2, 3, 3]);
    let ntypes = g.rng.range(1, 6) as usize;
    let types: Vec<i128> = (0..ntypes).map(|_| g.rng.range(-50_400 / 900, 50_400 / 900) * 900 + if g.rng.chance(1, 6) { g.rng.range(-59, 59) } else { 0 }).collect();
    let ntrans = match g.rng.next() % 4 { 0 => 0, 1 => g.rng.range(1, 3), _ => g.rng.range(3, 40) } as usize;
    let mut t: i128 = if version == 1 { g.rng.range(-2_000_000_000, -100_000_000) } else { g.rng.range(-6_000_000_000, 0) };
    let mut trans = vec![];
    for _ in 0..ntrans {
        let hi = if g.rng.chance(1, 5) { 3 } else { 40_000_000 };
        t += g.rng.range(1, hi);
        if version == 1 && t > i32::MAX as i128 { break; }
        trans.push((t, g.rng.range(0, ntypes as i128 - 1)));
    }
    let rule = if version == 1 { Rule::None } else {
        match g.rng.next() % 5 {
            0 => Rule::None,
            1 => Rule::Fixed(g.rng.range(-14 * 4, 14 * 4) * 900),
            _ => {
                let std = g.rng.range(-12 * 4, 13 * 4) * 900;
                let dst = std + *g.rng.pick(&[3600i128, 3600, 3600, 1800, 7200, -3600]);
                let north = g.rng.chance(1, 2);
                let tm = |g: &mut Gen| -> i128 { if version == 3 && g.rng.chance(1, 4) { g.rng.range(-48, 72) * 3600 } else { *g.rng.pick(&[7200i128, 7200, 0, 3600, 10_800, 9_000, 86_400, 82_800]) } };
                let (s, e) = (gen_rday(g, north), gen_rday(g, !north));
                Rule::Alt { std, dst, start: s, start_time: tm(g), end: e, end_time: tm(g) }
            }
        }
    };
    TzAst { version, trans, types, rule }
}
fn aim_timestamps(g: &mut Gen, ast: &TzAst, n_extra: usize) -> Vec<i128> {
    let mut ts: Vec<i128> = vec![];
    let first = ast.trans.first().map(|x| x.0);
    for (t, _) in ast.trans.iter().rev().take(12) { for d in [-1i128, 0, 1] { ts.push(t + d); } }
    if let Some((t, _)) = ast.trans.first() { for d in [0i128, 1] { ts.push(t + d); } }
    let last = ast.trans.last().map(|x| x.0).unwrap_or(-2_208_988_800);
    if let Rule::Alt { std, dst, start, start_time, end, end_time } = &ast.rule {
        for _ in 0..4 {
            let y = if g.rng.chance(1, 2) { g.rng.range(475, 625) * 4 } else { g.rng.range(1900, 2500) } as i64;
            let s = (rule_day_number(y, start) as i128 - 719_162) * 86_400 + start_time - std;
            let e = (rule_day_number(y, end) as i128 - 719_162) * 86_400 + end_time - dst;
            for x in [s, e] { for d in [-1i128, 0, 1] { ts.push(x + d); } }
        }
    }
    for _ in 0..n_extra { ts.push(g.rng.range(last.max(-2_208_988_800), 16_725_225_600)); }
    // only timestamps from the first transition onward, after the last one only inside years 1900..2500
    ts.retain(|t| first.map(|f| *t >= f).unwrap_or(true) && *t >= -2_208_988_800i128.min(first.unwrap_or(0)) && *t < 16_725_225_600);
    ts.sort(); ts.dedup();
    ts
}
pub fn gen_c18(g: &mut Gen, tier: &str) {
    let n = if tier == "thorough" { 6_000 } else { 400 };
    for _ in 0..n {
        let ast = gen_ast(g);
        let extra = (g.rng.range(0, 12) as u32, if g.rng.chance(1, 4) { g.rng.range(0, 3) as u32 } else { 0 }, g.rng.range(0, 4) as u32, g.rng.range(0, 4) as u32);
        FULL_FORM.store(g.rng.chance(1, 3), std::sync::atomic::Ordering::Relaxed);
        let bytes = encode(&ast, g.rng.chance(1, 4), extra);
        FULL_FORM.store(false, std::sync::atomic::Ordering::Relaxed);
        let ts = aim_timestamps(g, &ast, 10);
        let mut ints = vec![ts.len() as i128];
        ints.extend(ts.iter());
        ints.extend(ast_ints(&ast));
        g.push(true, Input::with_strs("tz_synth", ints, vec![bytes_to_str(&bytes)]));
    }
}

// ---------------------------------------------------------------- hostile data (C19)
fn lookup_points(g: &mut Gen) -> Vec<i128> {
    let mut v = vec![TS_MIN, TS_MIN + 1, TS_MAX, TS_MAX - 1, 0, -1, 1_700_000_000, -62_135_596_800, -62_135_596_801, 253_402_300_799, 4_102_444_800];
    for _ in 0..4 { v.push(g.rng.range(-4_000_000_000, 20_000_000_000)); }
    v.push(g.rng.range(TS_MIN, TS_MAX));
    v
}
fn push_hostile(g: &mut Gen, bytes: Vec<u8>) { push_hostile_at(g, bytes, &[]) }
/// `extra`: instants worth looking up in this particular file (the transition times of the file a mutation started from)
fn push_hostile_at(g: &mut Gen, bytes: Vec<u8>, extra: &[i128]) {
    let mut ts = lookup_points(g);
    for &t in extra.iter().take(12) { ts.push(t); ts.push(t - 1); ts.push(t + 1); }
    let mut ints = vec![ts.len() as i128];
    ints.extend(ts.iter());
    g.push(true, Input::with_strs("tz_lookup", ints, vec![bytes_to_str(&bytes)]));
}
const BAD_FOOTERS: [&str; 66] = ["", "\n", "\n\n", "\nUTC0\n", "UTC0\n", "\nUTC0", "\n:UTC0\n", "\nUTC\n", "\n0\n", "\nA0\n", "\nUTC25\n", "\nUTC24:60\n",
    "\nUTC0:0:60\n", "\nUTC-24\n", "\nUTC99999999999999999999\n", "\nCET-1CEST\n", "\nCET-1CEST,\n", "\nCET-1CEST,M3.5.0\n", "\nCET-1CEST,M3.5.0,\n",
    "\nCET-1CEST,M13.1.0,M10.5.0\n", "\nCET-1CEST,M0.1.0,M10.5.0\n", "\nCET-1CEST,M3.0.0,M10.5.0\n", "\nCET-1CEST,M3.6.0,M10.5.0\n", "\nCET-1CEST,M3.5.7,M10.5.0\n",
    "\nCET-1CEST,J0,J100\n", "\nCET-1CEST,J366,J100\n", "\nCET-1CEST,J365,J1\n", "\nCET-1CEST,366,100\n", "\nCET-1CEST,365,0\n", "\nCET-1CEST,0,365\n",
    "\nCET-1CEST,99999999999999999999,1\n", "\nCET-1CEST,M3.5.0/25,M10.5.0\n", "\nCET-1CEST,M3.5.0/-1,M10.5.0\n", "\nCET-1CEST,M3.5.0/167,M10.5.0/-167\n",
    "\nCET-1CEST,M3.5.0/168,M10.5.0\n", "\nCET-1CEST,M3.5,M10.5.0\n", "\nCET-1CEST,M3,M10\n", "\nCET-1CEST,M+3.+5.+0,M10.5.0\n", "\n<+03>-3\n", "\n<+03-3\n", "\n<>0\n",
    "\n<\u{e9}>3\n", "\nCET-1CEST,M3.5.0,M10.5.0junk\n", "\nCET-1CEST-2,J60/0,J300/0\n", "\n \tUTC0 \n", "\nUTC0\u{0}\n",
    // numbers that fit an i32 / u32 but whose product with 3600 or 60 does not, and the neighbours of the type limits
    "\nUTC596523\n", "\nUTC596524\n", "\nUTC-596524\n", "\nUTC2147483647\n", "\nUTC-2147483647\n", "\nUTC2147483648\n", "\nUTC4294967295\n", "\nUTC4294967296\n",
    "\nUTC0:35791395\n", "\nUTC0:2147483647\n", "\nUTC0:0:2147483647\n", "\nUTC1193047\n", "\nUTC1193046:71582788\n",
    "\nCET-1CEST596524,M3.5.0,M10.5.0\n", "\nCET-1CEST-2147483647,M3.5.0,M10.5.0\n", "\nCET-1CEST,M3.5.0/596524,M10.5.0\n", "\nCET-1CEST,M3.5.0/2147483647,M10.5.0\n",
    "\nCET-1CEST,M3.5.0,M10.5.0/-2147483647\n", "\nCET-1CEST,M3.5.0/0:2147483647,M10.5.0\n", "\nCET-1CEST,J2147483647,J1\n"];
pub fn gen_c19(g: &mut Gen, tier: &str) {
    let n = if tier == "thorough" { 3_000 } else { 250 };
    // footer grammar mutations on a minimal valid v2/v3 skeleton (with and without transitions)
    for v in [2u8, 3] {
        for with_trans in [false, true] {
            let ast = TzAst { version: v, trans: if with_trans { vec![(-1_000_000, 0), (500_000_000, 1)] } else { vec![] }, types: vec![3600, 7200], rule: Rule::None };
            let base = encode(&ast, false, (4, 0, 0, 0));
            let body = &base[..base.len() - 2];
            for f in BAD_FOOTERS.iter() {
                let mut b = body.to_vec(); b.extend(f.as_bytes()); push_hostile(g, b);
            }
            let mut b = body.to_vec(); b.extend([b'\n', 0xff, b'0', b'\n']); push_hostile(g, b);
            let mut b = body.to_vec(); b.extend([b'\n', b'<', 0xc3, b'>', b'0', b'\n']); push_hostile(g, b);
        }
    }
    for _ in 0..n {
        let ast = gen_ast(g);
        let good = encode(&ast, false, (g.rng.range(0, 8) as u32, 0, g.rng.range(0, 3) as u32, g.rng.range(0, 3) as u32));
        match g.rng.next() % 7 {
            0 => { // header count mutation (either header)
                let hdr = if ast.version == 1 || g.rng.chance(1, 2) { 0 } else { good.windows(4).skip(4).position(|w| w == b"TZif").map(|p| p + 4).unwrap_or(0) };
                let field = 20 + 4 * (g.rng.next() % 6) as usize;
                let cur = u32::from_be_bytes(good[hdr + field..hdr + field + 4].try_into().unwrap());
                let nv: u32 = *g.rng.pick(&[0u32, 1, cur.wrapping_add(1), cur.wrapping_sub(1), 1 << 31, u32::MAX, 255, 256]);
                let mut b = good.clone(); b[hdr + field..hdr + field + 4].copy_from_slice(&nv.to_be_bytes()); push_hostile(g, b);
            }
            1 => { let cut = (g.rng.next() as usize) % (good.len() + 1); push_hostile(g, good[..cut].to_vec()); }
            2 => { // type index of some transition
                if let Some(p) = good.windows(4).skip(4).position(|w| w == b"TZif").map(|p| p + 4).or(Some(0)) {
                    let tc = u32::from_be_bytes(good[p + 32..p + 36].try_into().unwrap()) as usize;
                    let ts = if p == 0 && ast.version == 1 { 4 } else { 8 };
                    if tc > 0 { let off = p + 44 + tc * ts + (g.rng.next() as usize) % tc; let mut b = good.clone();
                                // incl. exactly the number of types (one past the last valid index) and that number +- 1
                                let nty = ast.types.len() as u8;
                                if off < b.len() { b[off] = *g.rng.pick(&[0u8, 1, 5, 6, 7, 127, 128, 255, nty, nty, nty.wrapping_sub(1), nty.wrapping_add(1)]); }
                                let at: Vec<i128> = ast.trans.iter().map(|t| t.0).collect();
                                push_hostile_at(g, b, &at); }
                    else { push_hostile(g, good.clone()); }
                }
            }
            3 => { // version byte of the first or (independently) of the second header
                let mut b = good.clone();
                let second = good.windows(4).skip(4).position(|w| w == b"TZif").map(|p| p + 4);
                let at = match second { Some(h) if g.rng.chance(1, 2) => h + 4, _ => 4 };
                b[at] = *g.rng.pick(&[0u8, 0, 1, b'1', b'2', b'3', b'4', 255]); push_hostile(g, b); }
            4 => { // random byte flips
                let mut b = good.clone();
                for _ in 0..(1 + g.rng.next() % 3) { let i = (g.rng.next() as usize) % b.len(); b[i] = g.rng.next() as u8; }
                push_hostile(g, b);
            }
            5 => { // footer text mutation
                let mut b = good.clone();
                if ast.version > 1 {
                    let start = b.len() - 2 - tz_string(&ast.rule, false).len();
                    let alphabet = b"0123456789,./-+:MJ<>\n \0A\xff";
                    let i = start + (g.rng.next() as usize) % (b.len() - start);
                    match g.rng.next() % 3 { 0 => { b.remove(i); } 1 => { b.insert(i, *g.rng.pick(alphabet)); } _ => { b[i] = *g.rng.pick(alphabet); } }
                }
                push_hostile(g, b);
            }
            _ => push_hostile(g, good),
        }
    }
    for junk in [&b""[..], b"TZif", b"TZif2", b"TZiX", b"\0\0\0\0"] { push_hostile(g, junk.to_vec()); }
    // version-1 files without transitions whose type count is zero (header only, and a valid UTC file with the count cleared),
    // the same for version 2 with an empty footer
    for v in [1u8, 2, 3] {
        let ast = TzAst { version: v, trans: vec![], types: vec![0], rule: Rule::None };
        let good = encode(&ast, false, (0, 0, 0, 0));
        let hdr = if v == 1 { 0 } else { good.windows(4).skip(4).position(|w| w == b"TZif").map(|p| p + 4).unwrap_or(0) };
        let mut b = good.clone(); b[hdr + 36..hdr + 40].copy_from_slice(&0u32.to_be_bytes()); push_hostile(g, b.clone());
        b.truncate(hdr + 44); if v > 1 { b.extend(b"\n\n"); } push_hostile(g, b);
    }
}
