(* C09 — setting or clearing one field changes exactly that field, in local time.
   lday v / lclock v are the local day number and local time of day (InstantSpec.local_instant split at 24 h);
   clock_fields n = (hour, minute, second, nanosecond-of-second) and of_fields rebuilds the clock value. *)
From Astro Require Import Base CalSpec DateModel TimeModel ApiModel InstantSpec DateProofs TimeProofs ClockProofs OffsetProofs.

(* --- DateTime: a date-field setter replaces the local day (by what the Date-level setter f computes),
       keeps the local time of day and the offset, or passes f's OutOfRange error through *)
Theorem C09_dt_set_date : forall f v x, Inv_dt v -> inst_in_range (local_instant v) ->
  (forall nd, f (lday v) x = Ok nd -> inst_in_range (nd * D + lclock v - dt_off v * NANOS_PER_SEC) ->
     exists v', dt_set_date_with f v x = Ok v' /\ local_instant v' = nd * D + lclock v /\ dt_off v' = dt_off v /\
                dt_nanos v' = dt_nanos v) /\
  (forall e, f (lday v) x = Err e -> dt_set_date_with f v x = Err e).
Proof. exact c09_dt_set_date. Qed.
(* ... where the Date-level setters replace exactly one of (year, month, day) or refuse *)
Theorem C09_date_set_year : forall d y', let '(y, m, dd) := days_to_date d in
  (valid (y', m, dd) /\ in_range (y', m, dd) -> exists d', set_year d y' = Ok d' /\ days_to_date d' = (y', m, dd)) /\
  (~ (valid (y', m, dd) /\ in_range (y', m, dd)) -> exists n a b v, set_year d y' = Err (EOor n a b v)).
Proof. exact c09_date_set_year. Qed.
Theorem C09_date_set_month : forall d m', 0 <= m' -> let '(y, m, dd) := days_to_date d in
  (valid (y, m', dd) /\ in_range (y, m', dd) -> exists d', set_month d m' = Ok d' /\ days_to_date d' = (y, m', dd)) /\
  (~ (valid (y, m', dd) /\ in_range (y, m', dd)) -> exists n a b v, set_month d m' = Err (EOor n a b v)).
Proof. exact c09_date_set_month. Qed.
Theorem C09_date_set_day : forall d d0, 0 <= d0 -> let '(y, m, dd) := days_to_date d in
  (valid (y, m, d0) /\ in_range (y, m, d0) -> exists d', set_day d d0 = Ok d' /\ days_to_date d' = (y, m, d0)) /\
  (~ (valid (y, m, d0) /\ in_range (y, m, d0)) -> exists n a b v, set_day d d0 = Err (EOor n a b v)).
Proof. exact c09_date_set_day. Qed.
(* --- DateTime: a clock-field setter replaces the local time of day (by what the clock setter f computes),
       keeps the local day and the offset *)
Theorem C09_dt_set_time : forall f v x, Inv_dt v -> inst_in_range (local_instant v) ->
  (forall n', f (lclock v) x = Ok n' -> inst_in_range (lday v * D + n' - dt_off v * NANOS_PER_SEC) ->
     exists v', dt_set_time_with f v x = Ok v' /\ local_instant v' = lday v * D + n' /\ dt_off v' = dt_off v) /\
  (forall e, f (lclock v) x = Err e -> dt_set_time_with f v x = Err e).
Proof. exact c09_dt_set_time. Qed.
(* ... where each clock setter replaces exactly one field of (hour, minute, second, ns) or refuses *)
Theorem C09_set_hour : forall n x, 0 <= n < D -> 0 <= x -> let '(h, m, s, ns) := clock_fields n in
  (x <= 23 -> set_hour n x = Ok (of_fields x m s ns)) /\ (23 < x -> set_hour n x = Err (EOor NValue 0 23 x)).
Proof. exact set_hour_spec. Qed.
Theorem C09_set_minute : forall n x, 0 <= n < D -> 0 <= x -> let '(h, m, s, ns) := clock_fields n in
  (x <= 59 -> set_minute n x = Ok (of_fields h x s ns)) /\ (59 < x -> set_minute n x = Err (EOor NValue 0 59 x)).
Proof. exact set_minute_spec. Qed.
Theorem C09_set_second : forall n x, 0 <= n < D -> 0 <= x -> let '(h, m, s, ns) := clock_fields n in
  (x <= 59 -> set_second n x = Ok (of_fields h m x ns)) /\ (59 < x -> set_second n x = Err (EOor NValue 0 59 x)).
Proof. exact set_second_spec. Qed.
Theorem C09_set_milli : forall n x, 0 <= n < D -> 0 <= x -> let '(h, m, s, ns) := clock_fields n in
  (x <= 999 -> set_milli n x = Ok (of_fields h m s (x * 1000000 + ns mod 1000000))) /\
  (999 < x -> set_milli n x = Err (EOor NValue 0 999 x)).
Proof. exact set_milli_spec. Qed.
Theorem C09_set_micro : forall n x, 0 <= n < D -> 0 <= x -> let '(h, m, s, ns) := clock_fields n in
  (x <= 999999 -> set_micro n x = Ok (of_fields h m s (x * 1000 + ns mod 1000))) /\
  (999999 < x -> set_micro n x = Err (EOor NValue 0 999999 x)).
Proof. exact set_micro_spec. Qed.
Theorem C09_set_nano : forall n x, 0 <= n < D -> 0 <= x -> let '(h, m, s, ns) := clock_fields n in
  (x <= 999999999 -> set_nano n x = Ok (of_fields h m s x)) /\ (999999999 < x -> set_nano n x = Err (EOor NValue 0 999999999 x)).
Proof. exact set_nano_spec. Qed.
Theorem C09_clock_fields : forall h m s ns, 0 <= h <= 23 -> 0 <= m <= 59 -> 0 <= s <= 59 -> 0 <= ns < NANOS_PER_SEC ->
  0 <= of_fields h m s ns < D /\ clock_fields (of_fields h m s ns) = (h, m, s, ns).
Proof. exact clock_of_fields. Qed.
(* --- clears *)
Theorem C09_clear_clock : forall n, 0 <= n < D -> let '(h, m, s, ns) := clock_fields n in
  clear_nanos_until_minute n = Ok (of_fields h 0 0 0) /\ clear_nanos_until_second n = Ok (of_fields h m 0 0) /\
  clear_nanos_until_milli n = Ok (of_fields h m s 0) /\
  clear_nanos_until_micro n = Ok (of_fields h m s (ns / 1000000 * 1000000)) /\
  clear_nanos_until_nanos n = Ok (of_fields h m s (ns / 1000 * 1000)).
Proof. exact clear_clock_spec. Qed.
Theorem C09_dt_clear_clock : forall f v, Inv_dt v -> inst_in_range (local_instant v) ->
  forall c, f (lclock v) = Ok c -> inst_in_range (lday v * D + c - dt_off v * NANOS_PER_SEC) ->
     exists v', dt_clear_with f v = Ok v' /\ local_instant v' = lday v * D + c /\ dt_off v' = dt_off v.
Proof. exact c09_dt_clear_with. Qed.
Theorem C09_dt_clear_until_hour : forall v, Inv_dt v -> inst_in_range (local_instant v) ->
  inst_in_range (lday v * D - dt_off v * NANOS_PER_SEC) ->
  exists v', dt_clear_until_hour v = Ok v' /\ local_instant v' = lday v * D /\ dt_off v' = dt_off v.
Proof. exact c09_dt_clear_until_hour. Qed.
Theorem C09_dt_clear_until_day : forall v, Inv_dt v -> inst_in_range (local_instant v) ->
  let '(y, m, _) := days_to_date (lday v) in
  in_range (y, m, 1) -> inst_in_range (rd (y, m, 1) * D - dt_off v * NANOS_PER_SEC) ->
  exists v', dt_clear_until_day v = Ok v' /\ local_instant v' = rd (y, m, 1) * D /\ dt_off v' = dt_off v.
Proof. exact c09_dt_clear_until_day. Qed.
Theorem C09_dt_clear_until_month : forall v, Inv_dt v -> inst_in_range (local_instant v) ->
  let '(y, _, _) := days_to_date (lday v) in
  in_range (y, 1, 1) -> inst_in_range (rd (y, 1, 1) * D - dt_off v * NANOS_PER_SEC) ->
  exists v', dt_clear_until_month v = Ok v' /\ local_instant v' = rd (y, 1, 1) * D /\ dt_off v' = dt_off v.
Proof. exact c09_dt_clear_until_month. Qed.
Theorem C09_dt_clear_until_year : forall v, off_ok (dt_off v) ->
  exists v', dt_clear_until_year v = Ok v' /\ local_instant v' = 0 /\ dt_off v' = dt_off v.
Proof. exact c09_dt_clear_until_year. Qed.
(* --- Time: setters / clears act on the local clock value tlocal and keep the offset *)
Theorem C09_time_set : forall f t x, in_day t -> off_ok (tm_off t) ->
  (forall n', f (tlocal t) x = Ok n' -> 0 <= n' < D ->
     exists t', time_set_with f t x = Ok t' /\ tlocal t' = n' /\ tm_off t' = tm_off t /\ in_day t') /\
  (forall e, f (tlocal t) x = Err e -> time_set_with f t x = Err e).
Proof. exact c09_time_set. Qed.
Theorem C09_time_clear : forall f t, in_day t -> off_ok (tm_off t) ->
  forall c, f (tlocal t) = Ok c -> 0 <= c < D ->
     exists t', time_clear_with f t = Ok t' /\ tlocal t' = c /\ tm_off t' = tm_off t /\ in_day t'.
Proof. exact c09_time_clear. Qed.

Print Assumptions C09_dt_set_date.
Print Assumptions C09_date_set_year.
Print Assumptions C09_date_set_month.
Print Assumptions C09_date_set_day.
Print Assumptions C09_dt_set_time.
Print Assumptions C09_set_hour.
Print Assumptions C09_set_minute.
Print Assumptions C09_set_second.
Print Assumptions C09_set_milli.
Print Assumptions C09_set_micro.
Print Assumptions C09_set_nano.
Print Assumptions C09_clock_fields.
Print Assumptions C09_clear_clock.
Print Assumptions C09_dt_clear_clock.
Print Assumptions C09_dt_clear_until_hour.
Print Assumptions C09_dt_clear_until_day.
Print Assumptions C09_dt_clear_until_month.
Print Assumptions C09_dt_clear_until_year.
Print Assumptions C09_time_set.
Print Assumptions C09_time_clear.
