(* C17 — placeholder, extended below once the iterator proofs are in place. *)
From Astro Require Import Base CronModel.
Theorem C17_placeholder : cron_loop O (mkSched [] [] [] [] []) false false (ApiModel.mkDT 0 0 0) = Ok None.
Proof. exact eq_refl. Qed.
Print Assumptions C17_placeholder.
