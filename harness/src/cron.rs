//! C16 / C17: cron expressions and the iterator under a pinned clock (hook H1).
use crate::arith::mk_dt;
use crate::c01::dt_parts;
use crate::common::*;
use crate::civil::*;
use crate::gens::{NPD, NPS};
use astrolabe::CronSchedule;

fn parse_sets(dbg: &str) -> Vec<String> {
    // CronSchedule { minutes: {..}, hours: {..}, days_of_month: {..}, months: {..}, days_of_week: {..}, last_schedule: .. }
    let mut out = vec![];
    for key in ["minutes: {", "hours: {", "days_of_month: {", "months: {", "days_of_week: {"] {
        let i = dbg.find(key).map(|i| i + key.len()).unwrap_or(0);
        let j = dbg[i..].find('}').map(|j| i + j).unwrap_or(i);
        let mut v: Vec<u32> = dbg[i..j].split(',').filter_map(|x| x.trim().parse::<u32>().ok()).collect();
        v.sort();
        // encode the sorted set as a "string" of scalar values offset by 1 (0 is not a char we want to avoid)
        out.push(v.iter().map(|x| char::from_u32(*x + 1).unwrap()).collect::<String>());
    }
    out
}

pub fn run(inp: &Input) -> Option<Obs> {
    match inp.op.as_str() {
        "cron_parse" => {
            let e = inp.strs[0].clone();
            Some(guarded(move || match CronSchedule::parse(&e) {
                Ok(s) => {
                    let s2: Result<CronSchedule, _> = e.parse();
                    if s2.is_err() { return Obs::Err(8, vec![]); }
                    Obs::Ok(vec![], parse_sets(&format!("{:?}", s)))
                }
                Err(err) => err_obs(&err),
            }))
        }
        // the std tables the model restates (Text.v), enumerated over ALL Unicode scalar values: every scalar for which
        // char::is_whitespace holds, and the lower-casing of every ASCII scalar and of every scalar whose lower case contains an
        // ASCII character
        "std_tables" => {
            Some(guarded(move || {
                let mut ws = String::new();
                let mut rows: Vec<String> = vec![];
                for u in 0..=0x10FFFFu32 {
                    if let Some(c) = char::from_u32(u) {
                        if c.is_whitespace() { ws.push(c); }
                        let lc: String = c.to_lowercase().collect();
                        if c.is_ascii() || lc.chars().any(|x| x.is_ascii()) { let mut r = String::new(); r.push(c); r.push_str(&lc); rows.push(r); }
                    }
                }
                let mut out = vec![ws]; out.extend(rows);
                Obs::Ok(vec![], out)
            }))
        }
        "cron_next" => {
            let e = inp.strs[0].clone();
            let i = inp.ints.clone();
            Some(guarded(move || {
                let mut s = match CronSchedule::parse(&e) { Ok(s) => s, Err(err) => return err_obs(&err) };
                let (mut d, mut n) = (i[0], i[1]);
                let clone_at = i[2];
                let mut results = vec![];
                let mut clone: Option<CronSchedule> = None;
                let mut clone_ok = 1;
                for (k, adv) in i[3..].iter().enumerate() {
                    let t = d * NPD + n + adv * NPS;
                    d = t.div_euclid(NPD);
                    n = t.rem_euclid(NPD);
                    let now = match mk_dt(d, n, 0) { Some(v) => v, None => return Obs::Err(9, vec![]) };
                    astrolabe::verif_hooks::set_cron_now(Some(now));
                    if k as i128 == clone_at { clone = Some(s.clone()); }
                    let r = s.next();
                    if let Some(c) = clone.as_mut() {
                        let rc = c.next();
                        if rc.map(|x| dt_parts(&x)) != r.map(|x| dt_parts(&x)) { clone_ok = 0; }
                    }
                    match r {
                        Some(v) => { let (rd, rn, _) = dt_parts(&v); results.push(rd); results.push(rn); }
                        None => { results.push(ERR); results.push(ERR); }
                    }
                }
                astrolabe::verif_hooks::set_cron_now(None);
                let mut out = vec![clone_ok];
                out.extend(results);
                Obs::Ok(out, vec![])
            }))
        }
        _ => None,
    }
}
const ERR: i128 = crate::c01::ERR_SENTINEL;

// ---------------------------------------------------------------- generators
const MONTHS: [&str; 12] = ["jan", "feb", "mar", "apr", "may", "jun", "jul", "aug", "sep", "oct", "nov", "dec"];
const DOWS: [&str; 7] = ["sun", "mon", "tue", "wed", "thu", "fri", "sat"];
fn rand_case(g: &mut Gen, s: &str) -> String {
    s.chars().map(|c| if g.rng.chance(1, 2) { c.to_ascii_uppercase() } else { c }).collect()
}
fn gen_value(g: &mut Gen, k: usize, v: i128) -> String {
    // k: 0 minute, 1 hour, 2 dom, 3 month, 4 dow
    if k == 3 && g.rng.chance(1, 2) { return rand_case(g, MONTHS[(v - 1) as usize]); }
    if k == 4 && g.rng.chance(1, 2) && v <= 6 { return rand_case(g, DOWS[v as usize]); }
    if g.rng.chance(1, 8) { format!("0{}", v) } else { v.to_string() }
}
fn krange(k: usize) -> (i128, i128) {
    match k { 0 => (0, 59), 1 => (0, 23), 2 => (1, 31), 3 => (1, 12), _ => (0, 7) }
}
fn gen_item(g: &mut Gen, k: usize) -> String {
    let (lo, hi) = krange(k);
    match g.rng.next() % 6 {
        0 => "*".to_string(),
        1 => { // steps incl. zero and out-of-type values, spelled with and without leading zeros
               let st = match g.rng.next() % 8 { 0 => 0, 1 => *g.rng.pick(&[255i128, 256, 1000]), _ => g.rng.range(1, hi - lo + 2) };
               match g.rng.next() % 6 { 0 => format!("*/0{}", st), 1 => format!("*/00{}", st), _ => format!("*/{}", st) } }
        2 | 3 => { let v = g.rng.range(lo, hi); gen_value(g, k, v) }
        _ => { let a = g.rng.range(lo, hi); let b = g.rng.range(a, hi); format!("{}-{}", gen_value(g, k, a), gen_value(g, k, b)) }
    }
}
fn gen_field(g: &mut Gen, k: usize) -> String {
    let n = match g.rng.next() % 6 { 0 | 1 | 2 => 1, 3 | 4 => 2, _ => 3 };
    (0..n).map(|_| gen_item(g, k)).collect::<Vec<_>>().join(",")
}
pub fn gen_expr(g: &mut Gen) -> String {
    let seps = [" ", " ", " ", "  ", "\t", "\u{a0}", "\u{2003}"];
    let mut s = String::new();
    if g.rng.chance(1, 10) { s.push(' '); }
    for k in 0..5 {
        if k > 0 { s.push_str(*g.rng.pick(&seps)); }
        s.push_str(&gen_field(g, k));
    }
    if g.rng.chance(1, 10) { s.push('\n'); }
    s
}
fn mutate(g: &mut Gen, s: &str) -> String {
    let alphabet: Vec<char> = "0123456789*,-/ +aAjJsSuUnNoOmM7\u{e9}\u{212a}\u{3000}".chars().collect();
    let mut cs: Vec<char> = s.chars().collect();
    let pos = if cs.is_empty() { 0 } else { (g.rng.next() as usize) % (cs.len() + 1) };
    match g.rng.next() % 3 {
        0 => { if pos < cs.len() { cs.remove(pos); } }
        1 => { let c = *g.rng.pick(&alphabet); cs.insert(pos.min(cs.len()), c); }
        _ => { if pos < cs.len() { cs[pos] = *g.rng.pick(&alphabet); } }
    }
    cs.into_iter().collect()
}

/// numbers spelled unusually: zero steps of several digits, padded values
pub const SPELLINGS: [&str; 12] = ["*/00 * * * *", "*/000 * * * *", "5,*/00 * * * *", "* * */00 * *", "* * * */0000 *", "* * * * */00", "00 00 01 01 00",
    "*/05 * * * *", "007 * * * *", "*/0255 * * * *", "*/0256 * * * *", "00-059/1 * * * *"];
pub fn gen_c16(g: &mut Gen, tier: &str) {
    g.push(true, Input::with_strs("std_tables", vec![], vec![]));
    for f in SPELLINGS { g.push(true, Input::with_strs("cron_parse", vec![], vec![f.to_string()])); }
    let n = if tier == "thorough" { 60_000 } else { 3_000 };
    let fixed = ["* * * * *", "*/5 * * * *", "0 0 * * 0-7", "0 0 * * 5-7", "0 0 * * 7", "0 0 * * 07", "0 0 * * 7-7", "* * * * 1-2-3",
        "* * * * 1-2-", "* * * */+5 *", "* * * * */+2", "*/0 * * * *", "60 * * * *", "* 24 * * *", "* * 0 * *", "* * 32 * *", "* * * 13 *",
        "* * * 0 *", "* * * * 8", "* * * jan-DEC sun-SAT", "* * * * *  ", "* * * *", "* * * * * *", "", "*,* * * * *", "1,,2 * * * *",
        ", * * * *", "5-1 * * * *", "*/256 * * * *", "*/255 * * * *", "00000005 * * * *", "+5 * * * *", "* * * +5 *", "* * * ja *",
        "* * * janu *", "* * * \u{212a}an *", "* * * JAN *", "*\u{3000}*\u{2003}*\u{a0}*\u{85}*", "1-1 2-2 3-3 4-4 5-5", "* * * * mon-7", "* * * * 0-sun",
        "*/61 */25 */32 */13 */8", "- * * * *", "1- * * * *", "-1 * * * *", "*/ * * * *", "*/* * * * *", "*/1/2 * * * *", "1/2 * * * *"];
    for f in fixed { g.push(true, Input::with_strs("cron_parse", vec![], vec![f.to_string()])); }
    for k in 0..n {
        let e = gen_expr(g);
        g.push(true, Input::with_strs("cron_parse", vec![], vec![e.clone()]));
        // all-position single edits would be too many per expression in the quick tier: a few random edits each
        let edits = if tier == "thorough" { 6 } else { 3 };
        for _ in 0..edits { let m = mutate(g, &e); g.push(true, Input::with_strs("cron_parse", vec![], vec![m])); }
        if k % 10 == 0 { let m1 = mutate(g, &e); let m = mutate(g, &m1); g.push(true, Input::with_strs("cron_parse", vec![], vec![m])); }
    }
}

/// satisfiable schedules only (the property's hypothesis): decided from the parsed value sets
fn satisfiable(e: &str) -> bool {
    let sch = match CronSchedule::parse(e) { Ok(s) => s, Err(_) => return false };
    let sets = parse_sets(&format!("{:?}", sch));
    let vals = |i: usize| -> Vec<u32> { sets[i].chars().map(|c| c as u32 - 1).collect() };
    let (dom, mon, dow) = (vals(2), vals(3), vals(4));
    let dom_r = dom.len() != 31;
    let dow_r = dow.len() != 7;
    if dow_r || !dom_r { return true; }
    mon.iter().any(|m| { let ml = match m { 2 => 29, 4 | 6 | 9 | 11 => 30, _ => 31 }; dom.iter().any(|d| *d <= ml) })
}
fn gen_sat_expr(g: &mut Gen) -> String {
    loop {
        let e = gen_expr(g);
        if satisfiable(&e) { return e; }
    }
}

pub fn gen_c17(g: &mut Gen, tier: &str) {
    let n = if tier == "thorough" { 40_000 } else { 2_500 };
    let advs: [i128; 12] = [0, 0, 1, 59, 60, 61, 3_600, 86_400, 86_399, 40 * 86_400, 400 * 86_400, 31 * 86_400];
    let fixed = ["* * * * *", "*/5 * * * *", "0 0 29 2 *", "0 0 31 * *", "59 23 31 12 *", "0 0 * * 0", "0 0 1 * 1", "0 0 13 * fri",
        "30 12 * feb,jul mon-fri", "0 0 29 feb sun", "*/7 */5 */3 */2 */2", "0 0 1 1 *", "0 12 * * 7", "15 3 28-31 * *"];
    for k in 0..n {
        let e = if k < fixed.len() * 6 { fixed[k % fixed.len()].to_string() } else { gen_sat_expr(g) };
        // start: month ends, leap days, year ends, second-granular
        let y = match g.rng.next() % 4 { 0 => g.rng.range(2019, 2030), 1 => *g.rng.pick(&[1999i128, 2000, 2023, 2024, 2100, 1900]), 2 => g.rng.range(1, 3000), _ => g.rng.range(1970, 2040) } as i64;
        let m = g.rng.range(1, 12) as i64;
        let dd = match g.rng.next() % 3 { 0 => mlen(y, m), 1 => 1, _ => g.rng.range(1, mlen(y, m) as i128) as i64 };
        let d0 = days_from_ymd(y, m, dd) as i128;
        let n0 = match g.rng.next() % 4 { 0 => 86_399 * NPS + g.rng.range(0, 999_999_999), 1 => 0, 2 => (23 * 3600 + 59 * 60) * NPS, _ => g.rng.range(0, 86_399) * NPS + g.rng.range(0, 999_999_999) };
        let steps = 1 + (g.rng.next() % 6) as usize;
        let clone_at = if g.rng.chance(1, 2) { (g.rng.next() % steps as u64) as i128 } else { -1 };
        let mut ints = vec![d0, n0, clone_at];
        for s in 0..steps {
            let a = if s == 0 { 0 } else if g.rng.chance(3, 4) { *g.rng.pick(&advs) } else { g.rng.range(0, 10_000_000) };
            ints.push(a);
        }
        g.push(steps > 1, Input::with_strs("cron_next", ints, vec![e]));
    }
}
