(* CasesArith.v — correspondence and specification oracles for the arithmetic properties
   C03, C04, C06, C08 (and helpers shared with C02, C05, C07, C09, C10, C15). *)
From Astro Require Import Base CalSpec DateModel TimeModel ApiModel InstantSpec Cases.

Definition unit_of_code (u : Z) : option tunit :=
  match u with 0 => Some UHour | 1 => Some UMinute | 2 => Some USecond | 3 => Some UMilli | 4 => Some UMicro | 5 => Some UNano | _ => None end.
Definition unit_size (u : Z) : Z :=
  match u with 0 => NANOS_PER_HOUR | 1 => NANOS_PER_MINUTE | 2 => NANOS_PER_SEC | 3 => 1000000 | 4 => 1000 | 5 => 1 | _ => NANOS_PER_DAY end.

Definition obs_dt (r : res DT) : obs := obs_of (fun v => OOk [dt_days v; dt_nanos v; dt_off v] []) r.
Definition obs_tm (r : res TM) : obs := obs_of (fun t => OOk [tm_nanos t; tm_off t] []) r.
Definition obs_z (r : res Z) : obs := obs_of (fun z => OOk [z] []) r.
Definition inst (d n : Z) : Z := d * NANOS_PER_DAY + n.
Definition cmp_code (c : comparison) : Z := match c with Lt => -1 | Eq => 0 | Gt => 1 end.
Definition b2z (b : bool) : Z := if b then 1 else 0.

(* the observed DateTime, if any, denotes instant t with offset o and a well-formed representation *)
Definition out_is_instant (out : obs) (t o : Z) : bool :=
  match out with
  | OOk [d; n; o'] [] => (inst d n =? t) && (o' =? o) && in_i32b d && (0 <=? n) && (n <? NANOS_PER_DAY)
  | _ => false
  end.
Definition out_is_panic (out : obs) : bool := match out with OPanic => true | _ => false end.
(* "moves to t when representable, panics otherwise" *)
Definition moved_or_panic (out : obs) (t o : Z) : bool :=
  if inst_in_rangeb t then out_is_instant out t o else out_is_panic out.

(* ---------------------------------------------------------------- C03 *)
Definition check_C03_core (c : case) : Z :=
  match c_op c, c_ints c with
  | Op_dt_from_ts, [t] =>
      let mo := match dt_from_timestamp false t with
                | Ok v => let '(y, m, d) := dt_as_ymd v in let '(h, mi, s) := dt_as_hms v in
                          OOk [dt_days v; dt_nanos v; dt_off v; dt_timestamp v; y; m; d; h; mi; s] []
                | _ => OPanic end in
      let spec := if ts_in_rangeb t then
                    match c_out c with
                    | OOk [d; n; o; back; y; m; dd; h; mi; s] [] =>
                        (inst d n =? (t + EPOCH_SECS) * NANOS_PER_SEC) && (o =? 0) && (back =? t)
                        && implb (t =? 0) ((y =? 1970) && (m =? 1) && (dd =? 1) && (h =? 0) && (mi =? 0) && (s =? 0))
                    | _ => false end
                  else out_is_panic (c_out c) in
      verdict (obs_eqb mo (c_out c)) spec
  | Op_date_from_ts, [t] =>
      let mo := match date_from_timestamp t with Ok d => OOk [d; date_timestamp d] [] | _ => OPanic end in
      let spec := if ts_in_rangeb t then
                    match c_out c with
                    | OOk [d; back] [] => (d =? (t + EPOCH_SECS) / SECS_PER_DAY) && (back =? t / SECS_PER_DAY * SECS_PER_DAY)
                    | _ => false end
                  else out_is_panic (c_out c) in
      verdict (obs_eqb mo (c_out c)) spec
  | Op_dt_cmp, [d1; n1; o1; d2; n2; o2] =>
      let a := mkDT d1 n1 o1 in let b := mkDT d2 n2 o2 in
      let cm := Z.compare (dt_as_nanos a) (dt_as_nanos b) in
      let mo := OOk [cmp_code cm; b2z (dt_as_nanos a =? dt_as_nanos b); b2z (match cm with Lt => true | _ => false end);
                     b2z (match cm with Lt => false | _ => true end)] [] in
      let cs := Z.compare (inst d1 n1) (inst d2 n2) in
      let so := OOk [cmp_code cs; b2z (inst d1 n1 =? inst d2 n2); b2z (inst d1 n1 <? inst d2 n2); b2z (inst d2 n2 <=? inst d1 n1)] [] in
      verdict (obs_eqb mo (c_out c)) (obs_eqb so (c_out c))
  | Op_date_cmp, [d1; d2] =>
      let so := OOk [cmp_code (Z.compare d1 d2); b2z (d1 =? d2); b2z (d1 <? d2); b2z (d2 <=? d1)] [] in
      verdict (obs_eqb so (c_out c)) (obs_eqb so (c_out c))
  | Op_time_cmp, [n1; o1; n2; o2] =>
      let so := OOk [cmp_code (Z.compare n1 n2); b2z (n1 =? n2); b2z (n1 <? n2); b2z (n2 <=? n1)] [] in
      verdict (obs_eqb so (c_out c)) (obs_eqb so (c_out c))
  | _, _ => V_MALFORMED
  end.

(* ---------------------------------------------------------------- C04 *)
Definition check_C04 (c : case) : Z :=
  match c_op c, c_ints c with
  | Op_dt_add, [u; d; n; o; k] =>
      let v := mkDT d n o in
      let mo := match unit_of_code u with Some tu => obs_dt (dt_add tu v k) | None => obs_dt (dt_add_days v k) end in
      verdict (obs_eqb mo (c_out c)) (moved_or_panic (c_out c) (inst d n + k * unit_size u) o)
  | Op_dt_sub, [u; d; n; o; k] =>
      let v := mkDT d n o in
      let mo := match unit_of_code u with Some tu => obs_dt (dt_sub tu v k) | None => obs_dt (dt_sub_days v k) end in
      verdict (obs_eqb mo (c_out c)) (moved_or_panic (c_out c) (inst d n - k * unit_size u) o)
  | Op_dt_add_dur, [d; n; o; secs; ns] =>
      let a := secs * NANOS_PER_SEC + ns in
      verdict (obs_eqb (obs_dt (dt_add_nanos_total (mkDT d n o) a)) (c_out c)) (moved_or_panic (c_out c) (inst d n + a) o)
  | Op_dt_sub_dur, [d; n; o; secs; ns] =>
      let a := secs * NANOS_PER_SEC + ns in
      verdict (obs_eqb (obs_dt (dt_sub_nanos_total (mkDT d n o) a)) (c_out c)) (moved_or_panic (c_out c) (inst d n - a) o)
  | Op_dt_add_time, [d; n; o; tn; _] =>
      verdict (obs_eqb (obs_dt (dt_add_nanos_total (mkDT d n o) tn)) (c_out c)) (moved_or_panic (c_out c) (inst d n + tn) o)
  | Op_dt_sub_time, [d; n; o; tn; _] =>
      verdict (obs_eqb (obs_dt (dt_sub_nanos_total (mkDT d n o) tn)) (c_out c)) (moved_or_panic (c_out c) (inst d n - tn) o)
  | Op_date_add_days, [d; k] =>
      let so := if in_i32b (d + k) then OOk [d + k] [] else OPanic in
      verdict (obs_eqb (obs_z (date_add_days d k)) (c_out c)) (obs_eqb so (c_out c))
  | Op_date_sub_days, [d; k] =>
      let so := if in_i32b (d - k) then OOk [d - k] [] else OPanic in
      verdict (obs_eqb (obs_z (date_sub_days d k)) (c_out c)) (obs_eqb so (c_out c))
  | Op_date_add_dur, [d; secs; _] =>
      let t := d + secs / SECS_PER_DAY in
      let so := if in_i32b t then OOk [t] [] else OPanic in
      verdict (obs_eqb (obs_z (date_add_dur d secs)) (c_out c)) (obs_eqb so (c_out c))
  | Op_date_sub_dur, [d; secs; _] =>
      let t := d - secs / SECS_PER_DAY in
      let so := if in_i32b t then OOk [t] [] else OPanic in
      verdict (obs_eqb (obs_z (date_sub_dur d secs)) (c_out c)) (obs_eqb so (c_out c))
  | _, _ => V_MALFORMED
  end.

(* ---------------------------------------------------------------- C06 *)
Definition check_C06 (c : case) : Z :=
  match c_op c, c_ints c with
  | Op_dt_since, [u; d1; n1; o1; d2; n2; o2] =>
      let a := mkDT d1 n1 o1 in let b := mkDT d2 n2 o2 in
      let m := match u with
               | 0 => dt_hours_since a b | 1 => dt_minutes_since a b | 2 => dt_seconds_since a b
               | 3 => dt_millis_since a b | 4 => dt_micros_since a b | 5 => dt_nanos_since a b | _ => dt_days_since a b end in
      let s := Z.quot (inst d1 n1 - inst d2 n2) (unit_size u) in
      verdict (obs_eqb (OOk [m] []) (c_out c)) (obs_eqb (OOk [s] []) (c_out c))
  | Op_dt_dur_between, [d1; n1; o1; d2; n2; o2] =>
      let a := mkDT d1 n1 o1 in let b := mkDT d2 n2 o2 in
      let s := Z.abs (inst d1 n1 - inst d2 n2) in
      verdict (obs_eqb (OOk [dt_duration_between a b; dt_duration_between b a] []) (c_out c)) (obs_eqb (OOk [s; s] []) (c_out c))
  | Op_time_since, [u; n1; o1; n2; o2] =>
      let a := mkTM n1 o1 in let b := mkTM n2 o2 in
      let m := match u with
               | 0 => time_hours_since a b | 1 => time_minutes_since a b | 2 => time_seconds_since a b
               | 3 => time_millis_since a b | 4 => time_micros_since a b | _ => time_nanos_since a b end in
      let s := Z.quot (n1 - n2) (unit_size u) in
      verdict (obs_eqb (OOk [m] []) (c_out c)) (obs_eqb (OOk [s] []) (c_out c))
  | Op_time_dur_between, [n1; o1; n2; o2] =>
      let s := Z.abs (n1 - n2) in
      verdict (obs_eqb (OOk [time_duration_between (mkTM n1 o1) (mkTM n2 o2); time_duration_between (mkTM n2 o2) (mkTM n1 o1)] []) (c_out c))
              (obs_eqb (OOk [s; s] []) (c_out c))
  | Op_date_days_since, [d1; d2] =>
      verdict (obs_eqb (OOk [date_days_since d1 d2] []) (c_out c)) (obs_eqb (OOk [d1 - d2] []) (c_out c))
  | Op_date_dur_between, [d1; d2] =>
      let s := Z.abs (d1 - d2) * NANOS_PER_DAY in
      verdict (obs_eqb (OOk [date_duration_between d1 d2 * NANOS_PER_SEC; date_duration_between d2 d1 * NANOS_PER_SEC] []) (c_out c))
              (obs_eqb (OOk [s; s] []) (c_out c))
  | _, _ => V_MALFORMED
  end.

(* ---------------------------------------------------------------- C08 *)
Definition tm_is (out : obs) (n o : Z) : bool :=
  match out with OOk [n'; o'] [] => (n' =? n) && (o' =? o) && (0 <=? n') && (n' <? NANOS_PER_DAY) | _ => false end.
Definition is_oor (out : obs) : bool := match out with OErr 1 _ => true | _ => false end.

Definition check_C08 (c : case) : Z :=
  match c_op c, c_ints c with
  | Op_time_ctor, [0; h; m; s] =>
      let spec := if (h <=? 23) && (m <=? 59) && (s <=? 59) then tm_is (c_out c) ((h * 3600 + m * 60 + s) * NANOS_PER_SEC) 0 else is_oor (c_out c) in
      verdict (obs_same_class (obs_tm (time_from_hms h m s)) (c_out c)) spec
  | Op_time_ctor, [1; s] =>
      let spec := if s <? SECS_PER_DAY then tm_is (c_out c) (s * NANOS_PER_SEC) 0 else is_oor (c_out c) in
      verdict (obs_eqb (obs_tm (time_from_seconds s)) (c_out c)) spec
  | Op_time_ctor, [2; n] =>
      let spec := if n <? NANOS_PER_DAY then tm_is (c_out c) n 0 else is_oor (c_out c) in
      verdict (obs_eqb (obs_tm (time_from_nanos n)) (c_out c)) spec
  | Op_time_add, [u; n; o; k] =>
      match unit_of_code u with
      | Some tu => verdict (obs_eqb (obs_tm (Ok (time_add tu (mkTM n o) k))) (c_out c)) (tm_is (c_out c) ((n + k * unit_size u) mod NANOS_PER_DAY) o)
      | None => V_MALFORMED end
  | Op_time_sub, [u; n; o; k] =>
      match unit_of_code u with
      | Some tu => verdict (obs_eqb (obs_tm (Ok (time_sub tu (mkTM n o) k))) (c_out c)) (tm_is (c_out c) ((n - k * unit_size u) mod NANOS_PER_DAY) o)
      | None => V_MALFORMED end
  | Op_time_add_time, [n; o; n2; o2] =>
      verdict (obs_eqb (obs_tm (Ok (time_add_time (mkTM n o) (mkTM n2 o2)))) (c_out c)) (tm_is (c_out c) ((n + n2) mod NANOS_PER_DAY) o)
  | Op_time_sub_time, [n; o; n2; o2] =>
      verdict (obs_eqb (obs_tm (Ok (time_sub_time (mkTM n o) (mkTM n2 o2)))) (c_out c)) (tm_is (c_out c) ((n - n2) mod NANOS_PER_DAY) o)
  | Op_time_add_dur, [n; o; secs; ns] =>
      let a := secs * NANOS_PER_SEC + ns in
      verdict (obs_eqb (obs_tm (Ok (time_add_dur (mkTM n o) a))) (c_out c)) (tm_is (c_out c) ((n + a) mod NANOS_PER_DAY) o)
  | Op_time_sub_dur, [n; o; secs; ns] =>
      let a := secs * NANOS_PER_SEC + ns in
      verdict (obs_eqb (obs_tm (Ok (time_sub_dur (mkTM n o) a))) (c_out c)) (tm_is (c_out c) ((n - a) mod NANOS_PER_DAY) o)
  | Op_time_get, [n; o] =>
      let t := mkTM n o in
      let '(h, m, s) := time_as_hms t in
      let mo := OOk [tm_nanos t; time_as_seconds t; h; m; s; time_hour t; time_minute t; time_second t; time_milli t; time_micro t; time_nano t] [] in
      let l := (n + o * NANOS_PER_SEC) mod NANOS_PER_DAY in
      let so := OOk [n; n / NANOS_PER_SEC; n / NANOS_PER_HOUR; (n / NANOS_PER_MINUTE) mod 60; (n / NANOS_PER_SEC) mod 60;
                     l / NANOS_PER_HOUR; (l / NANOS_PER_MINUTE) mod 60; (l / NANOS_PER_SEC) mod 60;
                     (l mod NANOS_PER_SEC) / 1000000; (l mod NANOS_PER_SEC) / 1000; l mod NANOS_PER_SEC] [] in
      verdict (obs_eqb mo (c_out c)) (obs_eqb so (c_out c))
  | Op_time_of_dt, [d; n; o] =>
      verdict (obs_eqb (obs_tm (Ok (time_of_dt (mkDT d n o)))) (c_out c)) (tm_is (c_out c) n o)
  | _, _ => V_MALFORMED
  end.

(* ---------------------------------------------------------------- C02 *)
From Astro Require Import DateProofs WeekProofs.
Definition local_day (d n o : Z) : Z := (d * NANOS_PER_DAY + n + o * NANOS_PER_SEC) / NANOS_PER_DAY.

Definition info_model (d : Z) : obs :=
  match days_to_doy d with
  | Ok doy => let '(y, m, _) := days_to_date d in
      OOk [days_to_wday d false; doy; days_to_wyear d; fmt_quarter d; fmt_wday_e d; fmt_wday_e7 d; doy; m; y] []
  | _ => OPanic end.
(* specification: weekday from the Thursday anchor, day of year from 1 January of the reported year,
   ISO week by the Thursday rule, quarter from the month *)
Definition info_spec (d : Z) (out : obs) : bool :=
  match out with
  | OOk [wd; doy; w; q; e; e7; dd; m; y] [] =>
      let j := rd (y, 1, 1) in
      (wd =? (4 + (d - 719162)) mod 7) && negb (y =? 0) && (j <=? d) && (d <? j + ylen y) && (doy =? 1 + d - j) && (dd =? doy)
      && (w =? iso_week_exec d) && (q =? (m - 1) / 3 + 1) && (e =? wd + 1) && (e7 =? (wd + 6) mod 7 + 1)
  | _ => false end.

Definition check_C02_core (c : case) : Z :=
  match c_op c, c_ints c with
  | Op_date_info, [d] => verdict (obs_eqb (info_model d) (c_out c)) (info_spec d (c_out c))
  | Op_dt_info, [d; n; o] =>
      let l := local_day d n o in verdict (obs_eqb (info_model l) (c_out c)) (info_spec l (c_out c))
  | Op_date_set, [3; d; n] =>
      let mo := obs_z (set_day_of_year d n) in
      let '(y, _, _) := days_to_date d in
      let t := rd (y, 1, 1) + n - 1 in
      let spec := if (1 <=? n) && (n <=? ylen y) && in_i32b t
                  then obs_eqb (OOk [t] []) (c_out c) else is_oor (c_out c) in
      verdict (obs_same_class mo (c_out c)) spec
  | _, _ => V_MALFORMED
  end.

(* ---------------------------------------------------------------- C05 *)
From Astro Require Import MonthProofs.
Definition addm_model (kind d k : Z) : res Z :=
  match kind with 0 => date_add_months d k | 1 => date_sub_months d k | 2 => date_add_years d k | _ => date_sub_years d k end.
Definition addm_spec_date (kind d k : Z) : date :=
  let x := days_to_date d in
  match kind with 0 => add_months_spec x k | 1 => add_months_spec x (- k) | 2 => add_years_spec x k | _ => add_years_spec x (- k) end.

Definition check_C05 (c : case) : Z :=
  match c_op c, c_ints c with
  | Op_date_addm, [kind; d; k] =>
      let t := addm_spec_date kind d k in
      let so := if in_rangeb t then OOk [rd t] [] else OPanic in
      verdict (obs_eqb (obs_z (addm_model kind d k)) (c_out c)) (obs_eqb so (c_out c))
  | Op_dt_addm, [kind; d; n; o; k] =>
      let t := addm_spec_date kind d k in
      let so := if in_rangeb t then OOk [rd t; n; o] [] else OPanic in
      let mo := match addm_model kind d k with Ok d' => OOk [d'; n; o] [] | _ => OPanic end in
      verdict (obs_eqb mo (c_out c)) (obs_eqb so (c_out c))
  | _, _ => V_MALFORMED
  end.

(* ---------------------------------------------------------------- C07 *)
Definition dn_leb (a b : Z * Z) : bool := (fst a <? fst b) || ((fst a =? fst b) && (snd a <=? snd b)).
Definition dn_ltb (a b : Z * Z) : bool := (fst a <? fst b) || ((fst a =? fst b) && (snd a <? snd b)).
(* characterisation where it applies (a >= b, b's day <= 28); antisymmetry and years = months/12 always *)
Definition ms_spec (d1 n1 d2 n2 m y m' y' : Z) : bool :=
  let B := days_to_date d2 in let A := days_to_date d1 in
  (m' =? - m) && (y =? Z.quot m 12) && (y' =? Z.quot m' 12)
  && (if dn_leb (d2, n2) (d1, n1) && (snd B <=? 28)
      then (0 <=? m) && dn_leb (rd (add_months_spec B m), n2) (d1, n1) && dn_ltb (d1, n1) (rd (add_months_spec B (m + 1)), n2)
      else true)
  && (if dn_leb (d1, n1) (d2, n2) && (snd A <=? 28)
      then (0 <=? m') && dn_leb (rd (add_months_spec A m'), n1) (d2, n2) && dn_ltb (d2, n2) (rd (add_months_spec A (m' + 1)), n1)
      else true).
(* C03, last clause: the order of two instants agrees with the sign of every *_since difference (the differences themselves
   are C06's subject; its oracle is reused for the correspondence) *)
Definition check_C03 (c : case) : Z :=
  match c_op c, c_ints c with
  | Op_dt_since, [u; d1; n1; o1; d2; n2; o2] =>
      let v := check_C06 c in
      let s := match c_out c with
               | OOk [r] [] => if 0 <? r then inst d2 n2 <? inst d1 n1 else if r <? 0 then inst d1 n1 <? inst d2 n2 else true
               | _ => false end in
      if v =? 0 then verdict true s else if v =? 1 then verdict false s else if v =? 2 then verdict true s else verdict false s
  (* the same for two Times: they are ordered by their stored times of day, whatever offsets they carry *)
  | Op_time_since, [u; n1; o1; n2; o2] =>
      let v := check_C06 c in
      let s := match c_out c with
               | OOk [r] [] => if 0 <? r then n2 <? n1 else if r <? 0 then n1 <? n2 else true
               | _ => false end in
      if v =? 0 then verdict true s else if v =? 1 then verdict false s else if v =? 2 then verdict true s else verdict false s
  | _, _ => check_C03_core c
  end.

Definition check_C07 (c : case) : Z :=
  match c_op c, c_ints c, c_out c with
  | Op_date_ms, [d1; d2], OOk [m; y; m'; y'] [] =>
      let mo := OOk [months_between d1 0 d2 0; years_between d1 0 d2 0; months_between d2 0 d1 0; years_between d2 0 d1 0] [] in
      verdict (obs_eqb mo (c_out c)) (ms_spec d1 0 d2 0 m y m' y')
  | Op_dt_ms, [d1; n1; o1; d2; n2; o2], OOk [m; y; m'; y'] [] =>
      let mo := OOk [months_between d1 n1 d2 n2; years_between d1 n1 d2 n2; months_between d2 n2 d1 n1; years_between d2 n2 d1 n1] [] in
      verdict (obs_eqb mo (c_out c)) (ms_spec d1 n1 d2 n2 m y m' y')
  | _, _, _ => V_MALFORMED
  end.

(* ---------------------------------------------------------------- C09 / C10 / C15 *)
From Astro Require Import ClockProofs OffsetProofs.

Definition date_eqb_ (a b : date) : bool :=
  let '(y1, m1, d1) := a in let '(y2, m2, d2) := b in (y1 =? y2) && (m1 =? m2) && (d1 =? d2).
Definition lfields (d n o : Z) : (Z * Z * Z) * (Z * Z * Z * Z) :=
  let l := d * NANOS_PER_DAY + n + o * NANOS_PER_SEC in
  (days_to_date (l / NANOS_PER_DAY), clock_fields (l mod NANOS_PER_DAY)).
Definition fields_eqb (a b : (Z * Z * Z) * (Z * Z * Z * Z)) : bool :=
  let '((y1, m1, d1), (h1, mi1, s1, ns1)) := a in let '((y2, m2, d2), (h2, mi2, s2, ns2)) := b in
  (y1 =? y2) && (m1 =? m2) && (d1 =? d2) && (h1 =? h2) && (mi1 =? mi2) && (s1 =? s2) && (ns1 =? ns2).
Definition repr_ok (d n : Z) : bool := in_i32b d && (0 <=? n) && (n <? NANOS_PER_DAY).
(* would local fields F under offset o be a representable DateTime? *)
Definition local_repr (F : (Z * Z * Z) * (Z * Z * Z * Z)) (o : Z) : bool :=
  let '((y, m, d), (h, mi, s, ns)) := F in
  inst_in_rangeb (rd (y, m, d) * NANOS_PER_DAY + of_fields h mi s ns - o * NANOS_PER_SEC).

Definition dt_set_model (f : Z) (v : DT) (x : Z) : res DT :=
  match f with
  | 0 => dt_set_year v x | 1 => dt_set_month v x | 2 => dt_set_day v x | 3 => dt_set_day_of_year v x
  | 4 => dt_set_hour v x | 5 => dt_set_minute v x | 6 => dt_set_second v x
  | 7 => dt_set_milli v x | 8 => dt_set_micro v x | _ => dt_set_nano v x end.
(* the fields the setter should produce, or None when the value must be refused *)
Definition set_target (f : Z) (F : (Z * Z * Z) * (Z * Z * Z * Z)) (x : Z) : option ((Z * Z * Z) * (Z * Z * Z * Z)) :=
  let '((y, m, d), (h, mi, s, ns)) := F in
  let chk_date (t : date) := if validb t && in_rangeb t then Some (t, (h, mi, s, ns)) else None in
  match f with
  | 0 => chk_date (x, m, d) | 1 => chk_date (y, x, d) | 2 => chk_date (y, m, x)
  | 3 => let t := rd (y, 1, 1) + x - 1 in
         if (1 <=? x) && (x <=? ylen y) && in_i32b t then Some (days_to_date t, (h, mi, s, ns)) else None
  | 4 => if x <=? 23 then Some ((y, m, d), (x, mi, s, ns)) else None
  | 5 => if x <=? 59 then Some ((y, m, d), (h, x, s, ns)) else None
  | 6 => if x <=? 59 then Some ((y, m, d), (h, mi, x, ns)) else None
  | 7 => if x <=? 999 then Some ((y, m, d), (h, mi, s, x * 1000000 + ns mod 1000000)) else None
  | 8 => if x <=? 999999 then Some ((y, m, d), (h, mi, s, x * 1000 + ns mod 1000)) else None
  | _ => if x <=? 999999999 then Some ((y, m, d), (h, mi, s, x)) else None
  end.
Definition clear_target (w : Z) (F : (Z * Z * Z) * (Z * Z * Z * Z)) : (Z * Z * Z) * (Z * Z * Z * Z) :=
  let '((y, m, d), (h, mi, s, ns)) := F in
  match w with
  | 0 => ((1, 1, 1), (0, 0, 0, 0)) | 1 => ((y, 1, 1), (0, 0, 0, 0)) | 2 => ((y, m, 1), (0, 0, 0, 0))
  | 3 => ((y, m, d), (0, 0, 0, 0)) | 4 => ((y, m, d), (h, 0, 0, 0)) | 5 => ((y, m, d), (h, mi, 0, 0))
  | 6 => ((y, m, d), (h, mi, s, 0)) | 7 => ((y, m, d), (h, mi, s, ns / 1000000 * 1000000))
  | _ => ((y, m, d), (h, mi, s, ns / 1000 * 1000)) end.
Definition dt_clear_model (w : Z) (v : DT) : res DT :=
  match w with
  | 0 => dt_clear_until_year v | 1 => dt_clear_until_month v | 2 => dt_clear_until_day v | 3 => dt_clear_until_hour v
  | 4 => dt_clear_until_minute v | 5 => dt_clear_until_second v | 6 => dt_clear_until_milli v
  | 7 => dt_clear_until_micro v | _ => dt_clear_until_nano v end.
Definition out_has_fields (out : obs) (F : (Z * Z * Z) * (Z * Z * Z * Z)) (o : Z) : bool :=
  match out with OOk [d'; n'; o'] [] => repr_ok d' n' && (o' =? o) && fields_eqb (lfields d' n' o') F | _ => false end.

Definition tm_set_model (f : Z) (t : TM) (x : Z) : res TM :=
  match f with 4 => time_set_hour t x | 5 => time_set_minute t x | 6 => time_set_second t x
             | 7 => time_set_milli t x | 8 => time_set_micro t x | _ => time_set_nano t x end.
Definition tm_clear_model (w : Z) (t : TM) : res TM :=
  match w with 3 => time_clear_until_hour t | 4 => time_clear_until_minute t | 5 => time_clear_until_second t
             | 6 => time_clear_until_milli t | 7 => time_clear_until_micro t | _ => time_clear_until_nano t end.
Definition tfields (n o : Z) := clock_fields ((n + o * NANOS_PER_SEC) mod NANOS_PER_DAY).
Definition cf_eqb (a b : Z * Z * Z * Z) : bool :=
  let '(h1, mi1, s1, ns1) := a in let '(h2, mi2, s2, ns2) := b in (h1 =? h2) && (mi1 =? mi2) && (s1 =? s2) && (ns1 =? ns2).
Definition tm_has_fields (out : obs) (F : Z * Z * Z * Z) (o : Z) : bool :=
  match out with OOk [n'; o'] [] => (0 <=? n') && (n' <? NANOS_PER_DAY) && (o' =? o) && cf_eqb (tfields n' o') F | _ => false end.

Definition check_C09 (c : case) : Z :=
  match c_op c, c_ints c with
  | Op_dt_set, [f; d; n; o; x] =>
      let F := lfields d n o in
      let spec := match set_target f F x with
                  | Some T => if local_repr T o then out_has_fields (c_out c) T o else negb (match c_out c with OOk _ _ => true | _ => false end)
                  | None => is_oor (c_out c) end in
      verdict (obs_eqb (obs_dt (dt_set_model f (mkDT d n o) x)) (c_out c)) spec
  | Op_dt_clear, [w; d; n; o] =>
      let T := clear_target w (lfields d n o) in
      let '((y, m, dd), _) := T in
      let spec := if in_rangeb (y, m, dd) && local_repr T o then out_has_fields (c_out c) T o else out_is_panic (c_out c) in
      verdict (obs_eqb (obs_dt (dt_clear_model w (mkDT d n o))) (c_out c)) spec
  | Op_time_set, [f; n; o; x] =>
      let '(_, CF) := lfields 0 ((n + o * NANOS_PER_SEC) mod NANOS_PER_DAY) 0 in
      let spec := match set_target f ((1, 1, 1), CF) x with
                  | Some (_, T) => tm_has_fields (c_out c) T o
                  | None => is_oor (c_out c) end in
      verdict (obs_eqb (obs_tm (tm_set_model f (mkTM n o) x)) (c_out c)) spec
  | Op_time_clear, [w; n; o] =>
      let '(_, T) := clear_target w ((1, 1, 1), tfields n o) in
      verdict (obs_eqb (obs_tm (tm_clear_model w (mkTM n o))) (c_out c)) (tm_has_fields (c_out c) T o)
  | Op_date_set, [f; d; x] =>
      let mo := obs_z (match f with 0 => set_year d x | 1 => set_month d x | 2 => set_day d x | _ => set_day_of_year d x end) in
      let spec := match set_target f (days_to_date d, (0, 0, 0, 0)) x with
                  | Some (T, _) => match c_out c with OOk [d'] [] => in_i32b d' && date_eqb_ (days_to_date d') T | _ => false end
                  | None => is_oor (c_out c) end in
      verdict (obs_eqb mo (c_out c)) spec
  | Op_date_clear, [w; d] =>
      let mo := obs_z (match w with 0 => date_clear_until_year d | 1 => date_clear_until_month d | _ => date_clear_until_day d end) in
      let '(T, _) := clear_target w (days_to_date d, (0, 0, 0, 0)) in
      let spec := if in_rangeb T then match c_out c with OOk [d'] [] => date_eqb_ (days_to_date d') T | _ => false end
                  else out_is_panic (c_out c) in
      verdict (obs_eqb mo (c_out c)) spec
  | _, _ => V_MALFORMED
  end.

(* C02, last sentence, for DateTime values with an offset: set_day_of_year lands on the N-th day of the local year
   (the setter's oracle is C09's) *)
Definition check_C02 (c : case) : Z :=
  match c_op c, c_ints c with
  | Op_dt_set, 3 :: _ => check_C09 c
  | _, _ => check_C02_core c
  end.

Definition check_C10 (c : case) : Z :=
  match c_op c, c_ints c with
  | Op_dt_set_offset, [d; n; o; o2] =>
      let v0 := mkDT d n o in
      let mo := obs_of (fun v => OOk [dt_days v; dt_nanos v; dt_off v; dt_off v; cmp_code (Z.compare (dt_as_nanos v) (dt_as_nanos v0)); b2z (dt_as_nanos v =? dt_as_nanos v0);
                                      dt_timestamp v - dt_timestamp v0; dt_nanos_since v v0] []) (dt_set_offset v0 o2) in
      (* same stored instant, new offset; compares Equal and == to the original, same timestamp, zero difference *)
      let spec := if inst_in_rangeb (inst d n + o2 * NANOS_PER_SEC)
                  then obs_eqb (OOk [d; n; o2; o2; 0; 1; 0; 0] []) (c_out c) else out_is_panic (c_out c) in
      verdict (obs_eqb mo (c_out c)) spec
  | Op_dt_as_offset, [d; n; o; o2] =>
      let mo := obs_of (fun v => OOk [dt_days v; dt_nanos v; dt_off v; dt_off v] []) (dt_as_offset (mkDT d n o) o2) in
      let t := inst d n - o2 * NANOS_PER_SEC in
      let spec := if inst_in_rangeb t
                  then match c_out c with
                       | OOk [d'; n'; o'; g] [] => repr_ok d' n' && (inst d' n' =? t) && (o' =? o2) && (g =? o2)
                                                   && fields_eqb (lfields d' n' o') (lfields d n 0)
                       | _ => false end
                  else out_is_panic (c_out c) in
      verdict (obs_eqb mo (c_out c)) spec
  | Op_time_set_offset, [n; o; o2] =>
      verdict (obs_eqb (obs_tm (Ok (time_set_offset (mkTM n o) o2))) (c_out c)) (tm_is (c_out c) n o2)
  | Op_time_as_offset, [n; o; o2] =>
      let spec := tm_is (c_out c) ((n - o2 * NANOS_PER_SEC) mod NANOS_PER_DAY) o2
                  && match c_out c with OOk [n'; o'] [] => cf_eqb (tfields n' o') (tfields n 0) | _ => false end in
      verdict (obs_eqb (obs_tm (time_as_offset (mkTM n o) o2)) (c_out c)) spec
  | Op_offset_from_seconds, [s] =>
      let mo := obs_of (fun o => let '(h, m, ss) := offset_resolve_hms o in OOk [o; h; m; ss] []) (offset_from_seconds s) in
      let spec := if (-86399 <=? s) && (s <=? 86399)
                  then match c_out c with OOk [o; h; m; ss] [] => (o =? s) && (s =? (if s <? 0 then -1 else 1) * (Z.abs h * 3600 + m * 60 + ss))
                                                                 && (0 <=? m) && (m <=? 59) && (0 <=? ss) && (ss <=? 59) | _ => false end
                  else is_oor (c_out c) in
      verdict (obs_eqb mo (c_out c)) spec
  | Op_offset_from_hms, [h; m; s] =>
      let mo := obs_of (fun o => let '(h', m', ss) := offset_resolve_hms o in OOk [o; h'; m'; ss] []) (offset_from_hms h m s) in
      let spec := if (-23 <=? h) && (h <=? 23) && (m <=? 59) && (s <=? 59)
                  then obs_eqb (OOk [(if h <? 0 then -1 else 1) * (Z.abs h * 3600 + m * 60 + s); h; m; s] []) (c_out c)
                  else is_oor (c_out c) in
      verdict (obs_eqb mo (c_out c)) spec
  | Op_dt_get, [d; n; o] =>
      let v := mkDT d n o in
      let g (r : res Z) := match r with Ok z => z | _ => -1 end in
      let mo := OOk [g (dt_year v); g (dt_month v); g (dt_day v); g (dt_day_of_year v); g (dt_weekday v); g (dt_hour v); g (dt_minute v);
                     g (dt_second v); g (dt_milli v); g (dt_micro v); g (dt_nano v); dt_timestamp v] [] in
      let '((y, m, dd), (h, mi, s, ns)) := lfields d n o in
      let ld := (d * NANOS_PER_DAY + n + o * NANOS_PER_SEC) / NANOS_PER_DAY in
      let so := OOk [y; m; dd; 1 + ld - rd (y, 1, 1); (4 + (ld - 719162)) mod 7; h; mi; s; ns / 1000000; ns / 1000; ns;
                     (inst d n) / NANOS_PER_SEC - EPOCH_SECS] [] in
      verdict (obs_eqb mo (c_out c)) (obs_eqb so (c_out c))
  (* the getters of a Time read the clock shifted by its offset, modulo one day (same oracle as in C08) *)
  | Op_time_get, [_; _] => check_C08 c
  | _, _ => V_MALFORMED
  end.

(* C15: strict comparison of error payloads with the model (whose payloads are proved to bracket the accepted
   values), Ok exactly on valid arguments, and the stated range never contains the rejected value *)
Definition err_excludes_value (out : obs) : bool :=
  match out with OErr 1 [_; mn; mx; v; custom] => (custom =? 1) || negb ((mn <=? v) && (v <=? mx)) | OErr _ _ => false | _ => true end.
Definition check_C15 (c : case) : Z :=
  let out := c_out c in
  match c_op c, c_ints c with
  | (Op_date_from_ymd | Op_dt_from_ymd), [y; m; d] =>
      let mo := obs_of (fun n => let '(y2, m2, d2) := days_to_date n in OOk [n; y2; m2; d2] []) (date_to_days y m d) in
      let ok := validb (y, m, d) && in_rangeb (y, m, d) in
      verdict (obs_eqb mo out) (err_excludes_value out && (if ok then negb (is_oor out) && negb (out_is_panic out) else is_oor out))
  | Op_dt_from_ymdhms, [y; mo'; d; h; mi; s] =>
      let ok := validb (y, mo', d) && in_rangeb (y, mo', d) && (h <=? 23) && (mi <=? 59) && (s <=? 59) in
      let spec := if ok then obs_eqb (OOk [rd (y, mo', d); (h * 3600 + mi * 60 + s) * NANOS_PER_SEC; 0] []) out else is_oor out in
      verdict (obs_eqb (obs_dt (dt_from_ymdhms y mo' d h mi s)) out) (err_excludes_value out && spec)
  | Op_dt_from_hms, [h; mi; s] =>
      let ok := (h <=? 23) && (mi <=? 59) && (s <=? 59) in
      let spec := if ok then obs_eqb (OOk [0; (h * 3600 + mi * 60 + s) * NANOS_PER_SEC; 0] []) out else is_oor out in
      verdict (obs_eqb (obs_dt (dt_from_hms h mi s)) out) (err_excludes_value out && spec)
  | Op_time_ctor, [0; h; m; s] =>
      let spec := if (h <=? 23) && (m <=? 59) && (s <=? 59) then tm_is out ((h * 3600 + m * 60 + s) * NANOS_PER_SEC) 0 else is_oor out in
      verdict (obs_eqb (obs_tm (time_from_hms h m s)) out) (err_excludes_value out && spec)
  | Op_time_ctor, [1; s] =>
      let spec := if s <? SECS_PER_DAY then tm_is out (s * NANOS_PER_SEC) 0 else is_oor out in
      verdict (obs_eqb (obs_tm (time_from_seconds s)) out) (err_excludes_value out && spec)
  | Op_time_ctor, [2; n] =>
      let spec := if n <? NANOS_PER_DAY then tm_is out n 0 else is_oor out in
      verdict (obs_eqb (obs_tm (time_from_nanos n)) out) (err_excludes_value out && spec)
  | (Op_offset_from_seconds | Op_offset_from_hms), _ =>
      (* a stated range must also contain every accepted value: hours of an offset are -23..=23 (name code 5),
         its minutes and seconds 0..=59 (6, 7), its total seconds -86399..=86399 *)
      let brackets := match out with
                      | OErr 1 [5; mn; mx; _; 0] => (match c_op c with Op_offset_from_hms => (mn <=? -23) && (23 <=? mx) | _ => true end)
                      | OErr 1 [6; mn; mx; _; 0] | OErr 1 [7; mn; mx; _; 0] => (mn <=? 0) && (59 <=? mx)
                      | _ => true end in
      let v := check_C10 c in let s := err_excludes_value out && brackets in
      if v =? 0 then verdict true s else if v =? 1 then verdict false s else v
  | (Op_dt_set | Op_time_set | Op_date_set), _ =>
      (* a correspondence mismatch (1) must not hide a failure of this property's own oracle *)
      let v := check_C09 c in let s := err_excludes_value out && negb (out_is_panic out) in
      if v =? 0 then verdict true s else if v =? 1 then verdict false s else v
  | _, _ => V_MALFORMED
  end.
