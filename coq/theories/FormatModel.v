(* FormatModel.v — Gallina transcription of src/util/format.rs, parse_format_string (src/util/parse.rs)
   and the format() methods of Date, Time and DateTime.  Text = list of Unicode scalar values. *)
From Astro Require Import Base Text DateModel TimeModel ApiModel.

Definition NUL : Z := 0.
Definition APOS : Z := 39.
Definition str (l : list Z) : text := l.

(* ---------- numbers to text ---------- *)
(* decimal digits of a non-negative number, most significant first; fuel = more than the number of digits *)
Fixpoint digits_rev (fuel : nat) (n : Z) : text :=
  match fuel with
  | O => []
  | S k => if n <? 10 then [48 + n] else (48 + n mod 10) :: digits_rev k (n / 10)
  end.
Definition u_to_string (n : Z) : text := rev (digits_rev 40 n).
Fixpoint zeros (k : nat) : text := match k with O => [] | S j => 48 :: zeros j end.
(* format!("{:0width$}", n) for an unsigned n *)
Definition zero_padded (n : Z) (width : Z) : text :=
  let s := u_to_string n in zeros (Z.to_nat width - length s) ++ s.
(* zero_padded_i: sign, then |n| padded *)
Definition zero_padded_i (n : Z) (width : Z) : text :=
  (if n <? 0 then [45] else []) ++ zero_padded (Z.abs n) width.
Definition i_to_string (n : Z) : text := (if n <? 0 then [45] else []) ++ u_to_string (Z.abs n).

Definition get_length (len default max : Z) : Z := if max <? len then default else len.

Definition add_ordinal_indicator (n : Z) : text :=
  u_to_string n ++
  (if ((n - 1) mod 10 =? 0) && negb (n =? 11) then str [115; 116]
   else if ((n - 2) mod 10 =? 0) && negb (n =? 12) then str [110; 100]
   else if ((n - 3) mod 10 =? 0) && negb (n =? 13) then str [114; 100]
   else str [116; 104]).

(* ---------- name tables (src/util/constants.rs) ---------- *)
Definition MONTH_ABBREVIATED : list text := map str
  [[74;97;110]; [70;101;98]; [77;97;114]; [65;112;114]; [77;97;121]; [74;117;110];
   [74;117;108]; [65;117;103]; [83;101;112]; [79;99;116]; [78;111;118]; [68;101;99]].
Definition MONTH_WIDE : list text := map str
  [[74;97;110;117;97;114;121]; [70;101;98;114;117;97;114;121]; [77;97;114;99;104]; [65;112;114;105;108]; [77;97;121];
   [74;117;110;101]; [74;117;108;121]; [65;117;103;117;115;116]; [83;101;112;116;101;109;98;101;114];
   [79;99;116;111;98;101;114]; [78;111;118;101;109;98;101;114]; [68;101;99;101;109;98;101;114]].
Definition MONTH_NARROW : list text := map str [[74]; [70]; [77]; [65]; [77]; [74]; [74]; [65]; [83]; [79]; [78]; [68]].
Definition WDAY_ABBREVIATED : list text := map str
  [[83;117;110]; [77;111;110]; [84;117;101]; [87;101;100]; [84;104;117]; [70;114;105]; [83;97;116]].
Definition WDAY_WIDE : list text := map str
  [[83;117;110;100;97;121]; [77;111;110;100;97;121]; [84;117;101;115;100;97;121]; [87;101;100;110;101;115;100;97;121];
   [84;104;117;114;115;100;97;121]; [70;114;105;100;97;121]; [83;97;116;117;114;100;97;121]].
Definition WDAY_NARROW : list text := map str [[83]; [77]; [84]; [87]; [84]; [70]; [83]].
Definition WDAY_SHORT : list text := map str [[83;117]; [77;111]; [84;117]; [87;101]; [84;104]; [70;114]; [83;97]].

(* table.into_iter().nth(i).unwrap() *)
Definition nth_name (tbl : list text) (i : Z) : res text :=
  match nth_error tbl (Z.to_nat i) with Some s => if 0 <=? i then Ok s else Panic | None => Panic end.

(* ---------- parse_format_string ---------- *)
(* format.replace("''", "\0") *)
Fixpoint replace_double_apos (s : text) : text :=
  match s with
  | a :: ((b :: tl) as rest) => if (a =? APOS) && (b =? APOS) then NUL :: replace_double_apos tl else a :: replace_double_apos rest
  | _ => s
  end.
(* parts are built in reverse: the current (last) part is the head, each part itself stored reversed *)
Fixpoint tokenize (s : text) (escaped : bool) (parts : list text) : list text :=
  match s with
  | [] => parts
  | c :: tl =>
      if c =? APOS then
        (if negb escaped then tokenize tl (negb escaped) ([c] :: parts)
         else match parts with
              | p :: ps => tokenize tl (negb escaped) ((c :: p) :: ps)
              | [] => tokenize tl (negb escaped) [[c]]          (* unreachable: escaped implies a part exists *)
              end)
      else
        match parts with
        | p :: ps => if escaped || (match rev p with f :: _ => f =? c | [] => false end)
                     then tokenize tl escaped ((c :: p) :: ps) else tokenize tl escaped ([c] :: parts)
        | [] => tokenize tl escaped [[c]]
        end
  end.
Definition parse_format_string (fmt : text) : list text := rev (map (@rev Z) (tokenize (replace_double_apos fmt) false [])).

(* unquote_part *)
Definition unquote_part (part : text) : text :=
  let closed := (1 <? char_count part) && (match rev part with l :: _ => l =? APOS | [] => false end) in
  let inner := tl part in
  let inner := if closed then removelast inner else inner in
  map (fun c => if c =? NUL then APOS else c) inner.

(* ---------- format_date_part ---------- *)
Definition first_char (p : text) : Z := match p with c :: _ => c | [] => -1 end.

Definition format_month (len : Z) (days : Z) : res text :=
  let '(_, month, _) := days_to_date days in
  match len with
  | 1 | 2 => Ok (zero_padded month len)
  | 3 => nth_name MONTH_ABBREVIATED (month - 1)
  | 5 => nth_name MONTH_NARROW (month - 1)
  | _ => nth_name MONTH_WIDE (month - 1)
  end.
Definition format_wday (len : Z) (days : Z) : res text :=
  match len with
  | 1 | 2 => Ok (zero_padded (days_to_wday days false + 1) len)
  | 3 => nth_name WDAY_ABBREVIATED (days_to_wday days false)
  | 4 => nth_name WDAY_WIDE (days_to_wday days false)
  | 5 => nth_name WDAY_NARROW (days_to_wday days false)
  | 6 => nth_name WDAY_SHORT (days_to_wday days false)
  | 7 => Ok (zero_padded (days_to_wday days true + 1) 1)
  | 8 => Ok (zero_padded (days_to_wday days true + 1) 2)
  | _ => Ok (zero_padded (days_to_wday days false + 1) 1)
  end.

Definition format_date_part (chars : text) (days : Z) : res text :=
  let len := Z.of_nat (length chars) in
  let c := first_char chars in
  if c =? 71 then                                                   (* G *)
    Ok (match len with
        | 1 | 2 | 3 => if days <? 0 then str [66;67] else str [65;68]
        | 5 => if days <? 0 then str [66] else str [65]
        | _ => if days <? 0 then str [66;101;102;111;114;101;32;67;104;114;105;115;116] else str [65;110;110;111;32;68;111;109;105;110;105]
        end)
  else if c =? 121 then                                             (* y *)
    let '(year, _, _) := days_to_date days in
    match len with
    | 2 => Ok ((if year <? 0 then [45] else []) ++ zero_padded (Z.abs year mod 100) 2)   (* sign, last two digits *)
    | _ => Ok (zero_padded_i year len)
    end
  else if c =? 113 then                                             (* q *)
    let '(_, month, _) := days_to_date days in
    let quarter := (month - 1) / 3 + 1 in
    Ok (match len with
        | 1 | 2 => zero_padded quarter len
        | 3 => 81 :: u_to_string quarter
        | 4 => add_ordinal_indicator quarter ++ str [32;113;117;97;114;116;101;114]
        | _ => zero_padded quarter 1
        end)
  else if c =? 77 then format_month len days                         (* M *)
  else if c =? 119 then Ok (zero_padded (days_to_wyear days) (get_length len 2 2))     (* w *)
  else if c =? 100 then (let '(_, _, d) := days_to_date days in Ok (zero_padded d (get_length len 2 2)))   (* d *)
  else if c =? 68 then (let? doy := days_to_doy days in Ok (zero_padded doy (get_length len 1 3)))        (* D *)
  else if c =? 101 then format_wday len days                         (* e *)
  else Ok chars.

(* ---------- format_time_part ---------- *)
Definition PERIOD_FORMATS : list (list text) :=
  let am := str [65;77] in let pm := str [80;77] in let noon := str [110;111;111;110] in
  let midnight := str [109;105;100;110;105;103;104;116] in
  [[am; pm; noon; midnight]; [am; pm; noon; midnight];
   [str [97;109]; str [112;109]; noon; midnight];
   [str [97;46;109;46]; str [112;46;109;46]; noon; midnight];
   [str [97]; str [112]; str [110]; str [109;105]]].
Definition format_period (nanos : Z) (len : Z) (separate_12 : bool) : res text :=
  let time := wrap_u32 (nanos / NANOS_PER_SEC) mod SECS_PER_DAY in
  match nth_error PERIOD_FORMATS (Z.to_nat (len - 1)) with
  | Some row =>
      let pick (i : nat) := match nth_error row i with Some s => Ok s | None => Panic end in
      if len <=? 0 then Panic
      else if separate_12 && (time =? 0) then pick 3%nat
      else if separate_12 && (time =? 43200) then pick 2%nat
      else if time <? 43200 then pick 0%nat else pick 1%nat
  | None => Panic
  end.

Definition format_zone (len : Z) (offset : Z) (with_z : bool) : text :=
  if with_z && (offset =? 0) then [90] else
  let a := Z.abs offset in
  let hour := a / 3600 in let minute := a mod 3600 / 60 in let second := a mod 3600 mod 60 in
  let prefix := if offset <? 0 then [45] else [43] in
  match len with
  | 1 => prefix ++ zero_padded hour 2 ++ (if negb (minute =? 0) then zero_padded minute 2 else [])
  | 2 => prefix ++ zero_padded hour 2 ++ zero_padded minute 2
  | 4 => prefix ++ zero_padded hour 2 ++ zero_padded minute 2 ++ (if negb (second =? 0) then zero_padded second 2 else [])
  | 5 => prefix ++ zero_padded hour 2 ++ [58] ++ zero_padded minute 2 ++ (if negb (second =? 0) then 58 :: zero_padded second 2 else [])
  | _ => prefix ++ zero_padded hour 2 ++ [58] ++ zero_padded minute 2
  end.

Definition format_time_part (chars : text) (nanoseconds offset : Z) : res text :=
  let len := Z.of_nat (length chars) in
  let c := first_char chars in
  let '(hour24, minute, second) := nanos_to_time nanoseconds in
  if c =? 97 then format_period nanoseconds (get_length len 3 5) false                 (* a *)
  else if c =? 98 then format_period nanoseconds (get_length len 3 5) true             (* b *)
  else if c =? 104 then Ok (zero_padded (if hour24 mod 12 =? 0 then 12 else hour24 mod 12) (get_length len 2 2))   (* h *)
  else if c =? 72 then Ok (zero_padded hour24 (get_length len 2 2))                    (* H *)
  else if c =? 75 then Ok (zero_padded (hour24 mod 12) (get_length len 2 2))           (* K *)
  else if c =? 107 then Ok (zero_padded (if hour24 =? 0 then 24 else hour24) (get_length len 2 2))   (* k *)
  else if c =? 109 then Ok (zero_padded minute (get_length len 2 2))                   (* m *)
  else if c =? 115 then Ok (zero_padded second (get_length len 2 2))                   (* s *)
  else if c =? 110 then                                                               (* n *)
    let length0 := get_length len 3 5 in
    let length1 := if length0 =? 4 then 6 else if length0 =? 5 then 9 else length0 in
    let subsec := wrap_u32 (nanoseconds mod NANOS_PER_SEC) in
    Ok (zero_padded (subsec / 10 ^ (9 - length1)) length1)
  else if c =? 88 then Ok (format_zone len offset true)                               (* X *)
  else if c =? 120 then Ok (format_zone len offset false)                             (* x *)
  else Ok chars.

Definition is_date_symbol (c : Z) : bool :=
  (c =? 71) || (c =? 121) || (c =? 113) || (c =? 77) || (c =? 119) || (c =? 100) || (c =? 68) || (c =? 101).
Definition is_time_symbol (c : Z) : bool :=
  (c =? 97) || (c =? 98) || (c =? 104) || (c =? 72) || (c =? 75) || (c =? 107) || (c =? 109) || (c =? 115)
  || (c =? 110) || (c =? 88) || (c =? 120).

Definition format_part (chars : text) (days nanoseconds offset : Z) : res text :=
  let c := first_char chars in
  if is_date_symbol c then format_date_part chars days
  else if is_time_symbol c then format_time_part chars nanoseconds offset
  else Ok chars.

(* ---------- the three format() methods ---------- *)
Fixpoint concat_res (l : list (res text)) : res text :=
  match l with [] => Ok [] | r :: tl => let? a := r in let? b := concat_res tl in Ok (a ++ b) end.

Definition render_part (f : text -> res text) (part : text) : res text :=
  if first_char part =? NUL then Ok (map (fun c => if c =? NUL then APOS else c) part)
  else if first_char part =? APOS then Ok (unquote_part part)
  else f part.

Definition date_format (days : Z) (fmt : text) : res text :=
  concat_res (map (render_part (fun p => format_date_part p days)) (parse_format_string fmt)).
Definition time_format (t : TM) (fmt : text) : res text :=
  let off := tm_off t in
  concat_res (map (render_part (fun p => format_time_part p (add_offset_to_nanos (tm_nanos t) off) off)) (parse_format_string fmt)).
Definition dt_format (v : DT) (fmt : text) : res text :=
  let off := dt_off v in
  let? '(days, nanos) := add_offset_to_dn (dt_days v) (dt_nanos v) off in
  concat_res (map (render_part (fun p => format_part p days nanos off)) (parse_format_string fmt)).
