(* SinceSign.v — C03, last clause: the order of two DateTime values agrees with the sign of every *_since difference. *)
From Astro Require Import Base DateModel TimeModel ApiModel InstantSpec TimeProofs.

Lemma quot_sign x u : 0 < u -> (0 < Z.quot x u -> 0 < x) /\ (Z.quot x u < 0 -> x < 0).
Proof.
  intros Hu. split; intros H.
  - destruct (Z_lt_le_dec 0 x) as [|Hx]; [assumption|]. exfalso.
    pose proof (Z.quot_pos (- x) u ltac:(lia) Hu) as P. rewrite Z.quot_opp_l in P by lia. lia.
  - destruct (Z_lt_le_dec x 0) as [|Hx]; [assumption|]. exfalso. pose proof (Z.quot_pos x u Hx Hu). lia.
Qed.

Theorem c03_order_since a b : Inv_dt a -> Inv_dt b ->
  forall s, In s [dt_hours_since a b; dt_minutes_since a b; dt_seconds_since a b; dt_millis_since a b; dt_micros_since a b;
                  dt_nanos_since a b; dt_days_since a b] ->
  (0 < s -> dt_cmp a b = Gt) /\ (s < 0 -> dt_cmp a b = Lt) /\ (dt_cmp a b = Eq -> s = 0).
Proof.
  intros Ia Ib s Hin. destruct (c03_cmp a b) as [Ec _]. rewrite Ec.
  assert (G : exists u, 0 < u /\ s = Z.quot (instant a - instant b) u).
  { cbn [In] in Hin. destruct Hin as [<- | [<- | [<- | [<- | [<- | [<- | [<- | []]]]]]]].
    - exists NANOS_PER_HOUR. split; [unfold NANOS_PER_HOUR; lia | apply c06_hours; assumption].
    - exists NANOS_PER_MINUTE. split; [unfold NANOS_PER_MINUTE; lia | apply c06_minutes; assumption].
    - exists NANOS_PER_SEC. split; [unfold NANOS_PER_SEC; lia | apply c06_seconds; assumption].
    - exists 1000000. split; [lia | apply c06_millis; assumption].
    - exists 1000. split; [lia | apply c06_micros; assumption].
    - exists 1. split; [lia|]. rewrite Z.quot_1_r. apply c06_nanos; assumption.
    - exists NANOS_PER_DAY. split; [unfold NANOS_PER_DAY; lia | apply c06_days; assumption]. }
  destruct G as (u & Hu & ->). destruct (quot_sign (instant a - instant b) u Hu) as [P N].
  repeat split.
  - intros H. apply Z.compare_gt_iff. specialize (P H). lia.
  - intros H. apply Z.compare_lt_iff. specialize (N H). lia.
  - intros H. apply Z.compare_eq_iff in H. rewrite H, Z.sub_diag. apply Z.quot_0_l. lia.
Qed.
